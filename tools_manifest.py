#!/usr/bin/env python3
"""Regenerates MANIFEST.json from the list of built checks (keeps it valid at all times)."""
import json, sys

BUILT = json.load(open("/verif/built.json"))

NA = {
 "C01": "parse_string is a pure function of (text, templates, language): totality/termination over strings has no schedule, clock, peer, crash point or I/O fault in it - not a simulation target.",
 "C02": "parse-tree structure is a pure function of the generated document; nothing for a scheduler or fault injector to own.",
 "C03": "template expansion is a pure single-threaded interpreter; termination and proportional work are input properties.",
 "C04": "differential semantics of the template language and #expr: pure functions of the program text.",
 "C05": "tree well-formedness after each cleaner pass: pure tree-to-tree functions.",
 "C06": "cleaner passes complete / reach fixed points: pure functions of the tree.",
 "C07": "cleaning is lossless: pure function of the tree.",
 "C08": "render pipeline totality over collections: the statement has no crash, schedule or I/O fault (file handling under crashes is C20).",
 "C09": "opaque-tag protection: pure string/tree transformation.",
 "C10": "scanner tokens tile the input: pure function of one string.",
 "C12": "title normalisation laws: pure function of (title, siteinfo).",
 "C13": "metabook JSON round trip and collection id: pure functions.",
 "C14": "write -> zip -> read round trip is a deterministic function of the ordered write list; no fault or interleaving is quantified.",
 "C15": "zip extraction confinement is a pure function of member names and destination.",
}
PENDING = "claimed in DESIGN.md; its simulator is not built yet in this commit, so it is not claimed here yet."

CHECKS = {
 "C16": dict(engine="qsworld", category="exploration", design_ref="DESIGN.md 3.1-3.3",
   technique="deterministic simulation: real gevent queue server on fake sockets under a seeded scheduler with fault injection (disconnects, connection resets, pipelined requests, stalled ticks, clock jumps, multi-event quanta, restarts with down time and failing start attempts, directed motifs woven into random steps); conservation invariants at every quiescent point + drain liveness; ddmin-minimised replay files",
   text="Seeded search over schedules and fault sequences of the real server code (rpcserver loop, QPlugin, workq, timers) with the conservation invariant evaluated at every quiescent point and a bounded-liveness drain at the end. Sampling, not proof: a clean batch is evidence over ~10^5 (quick) to ~10^7 (thorough) histories.",
   note="gevent hub/AsyncResult/Greenlet.kill are real and trusted; TCP is replaced by whole-line fake sockets; qserve.Main.__init__/run, rpcserver.Server.__init__/run_forever/handle_client run as they are over a stand-in for gevent's StreamServer; only gevent-feasible schedules are generated; a server that does not serve at all is a violation of the running check (no vacuous pass)."),
 "C17": dict(engine="qsworld", category="exploration", design_ref="DESIGN.md 3.4",
   technique="deterministic simulation with an executable reference model: every request/response/timer/disconnect of the real server is stamped in execution order and checked against a small sequential model (eligibility, not-done, priority/FIFO, finality, waiters, idempotent add, counters, TTL bound)",
   text="Histories of the real server are checked operation by operation against the reference model; the cooperative server's execution order is the linearisation order, so the check is linear in the history. Sampling over seeds.",
   note="same trusted base as C16; TTL drops are resolved by looking at the server's job table after each watchdog tick and bounded (never before finish+ttl-1s, never an unfinished job)."),
 "C18": dict(engine="qsworld", category="fault_enumeration", design_ref="DESIGN.md 3.5",
   technique="deterministic simulation with restart-fault enumeration: for each seeded history the graceful save/stop/load step (real pickle file, real loaddb) is inserted at every position; continuation checked against the reference model with a restart transition",
   text="The restart position is enumerated completely for every sampled history (exhaustive per history); histories themselves are sampled by seed.",
   note="the restart is the graceful save the property states (savedb in the server loop's finally); a torn pickle is outside C18."),
 "C19": dict(engine="qsworld", category="exploration", design_ref="DESIGN.md 3.6",
   technique="deterministic simulation: real nserve.dispatch_command -> Application.dispatch -> do_render/do_render_status bound in-process to the simulated queue; the two RPCs of a status poll interleave with workers, timers, kills and TTL drops; oracle from the reference model's snapshots at the instants the server processed them",
   text="Seeded histories of a collection's two jobs with status polls as concurrent simulated clients; every reported state is compared with what the model says the render job's state was when the server answered.",
   note="the bottle HTTP server itself is not run (the route function dispatch_command is called with the POST data); qserve side is the same real code as C16; every known (collection, writer) is polled once more at the end of each history."),
 "C11": dict(engine="fetchworld", category="exploration", design_ref="DESIGN.md 4",
   technique="deterministic simulation: the whole fetcher (make_nuwiki) in virtual time against an in-process synthetic MediaWiki with seeded response latencies, stalls, batch/limit knobs; closure oracle computed independently from the synthetic wiki; archive read back with nuwiki.Adapt",
   text="Seeded worlds x metabooks x configurations x latency schedules; each run is a complete fetch whose archive is compared with the closure computed from the synthetic wiki.",
   note="HTTP is replaced at MwApi._send_http_request and the download client; the synthetic wiki implements only the API surface the fetcher uses."),
 "C20": dict(engine="fsfault", category="fault_enumeration", design_ref="DESIGN.md 5",
   technique="deterministic fault enumeration: each producer runs in a forked child whose file-system calls are counted; for every position k the child is killed (SIGKILL, user-space buffers really lost), gets SIGTERM (command mains), or the call fails with ENOSPC/EIO/short write/disk filling up; a second producer may run in the same directory between two calls; the parent inspects the published paths like a reader",
   text="Positions x fault kinds are enumerated completely per scenario; scenarios (sizes, buffer sizes, previous version present/absent) are sampled by seed.",
   note="POSIX rename/replace atomicity on one file system is trusted; process death, not power loss (no fsync model)."),
}

def main():
    checks = []
    for pid in sorted(BUILT):
        c = CHECKS[pid]
        checks.append({
            "property_id": pid,
            "quick_cmd": f"./check {pid} --tier quick",
            "thorough_cmd": f"./check {pid} --tier thorough",
            "evidence_file": f"/verif/evidence/{pid}.json",
            "replay_cmd_template": f"./check {pid} --replay {{path}}",
            "engine": c["engine"],
            "level_claimed": {"category": c["category"], "text": c["text"], "design_ref": c["design_ref"]},
            "level_note": c["note"],
            "technique": c["technique"],
        })
    na = [{"property_id": k, "reason": v} for k, v in sorted(NA.items())]
    for pid in sorted(CHECKS):
        if pid not in BUILT:
            na.append({"property_id": pid, "reason": PENDING})
    na.sort(key=lambda x: x["property_id"])
    m = {
        "version": 1,
        "setup_cmd": "./setup.sh",
        "hooks": {
            "guard": "MWLIB_VERIF",
            "enable": "none needed: every seam is an existing module attribute, injectable argument or replaceable method (DESIGN.md 2.2); checks import /repo/src through /venv's .pth, so the working tree is what runs",
            "baseline_off_cmd": "cd /repo && timeout 3000 /venv/bin/python -m pytest -ra -q -p no:cacheprovider --timeout=900 --continue-on-collection-errors",
            "source_commits": [],
            "add_only": True,
        },
        "engines": [
            {"name": "qsworld", "path": "vsim/qsworld.py", "serves_properties": ["C16", "C17", "C18", "C19"],
             "kind_free_text": "deterministic simulator: real gevent queue server on fake sockets, virtual clock/timers, scripted random, seeded step generator, reference model, ddmin"},
            {"name": "fetchworld", "path": "vsim/fetchworld.py", "serves_properties": ["C11"],
             "kind_free_text": "virtual-time discrete-event simulation of the fetcher against a synthetic MediaWiki"},
            {"name": "fsfault", "path": "vsim/fsfault.py", "serves_properties": ["C20"],
             "kind_free_text": "fork-per-fault-point file-system fault enumeration (kill, ENOSPC, EIO/short write)"},
        ],
        "checks": checks,
        "not_applicable": na,
        "notes": "Technique family: deterministic simulation with fault injection. See DESIGN.md. ./check selftest determinism|sensitivity proves the simulator.",
    }
    json.dump(m, open("/verif/MANIFEST.json", "w"), indent=1)
    print("MANIFEST.json written:", [c["property_id"] for c in checks])

main()
