#!/usr/bin/env python3
"""Prepare one seeding round: a scratch git worktree of /repo per claimed property under
/tmp/seed<N>-<P>/wt and a prompt file /tmp/seed<N>-<P>/prompt.txt that contains ONLY the property
text, the names of the ideas already used (so that a round does not repeat them), and how to run
things.  Nothing of /verif's machinery is given to the sub-agent.

usage: tools_seed_round.py <N> [directions-file]
Afterwards: start one sub-agent per property on its prompt file; confirm with tools_confirm_seed.sh
(SEEDROOT=/tmp/seed<N>); store under /verif/seeded/<id>/; remove the worktrees."""

import glob
import json
import os
import subprocess
import sys

N = sys.argv[1]
ORD = {"8": "EIGHTH", "9": "NINTH", "10": "TENTH", "11": "ELEVENTH", "12": "TWELFTH"}.get(N, f"{N}th")
DIRECTIONS = open(sys.argv[2]).read().strip() if len(sys.argv) > 2 else (
    "Some directions: interactions of two features that are each fine alone (restart + something, clock change + "
    "something, a configuration knob or environment variable + something); error paths and clean-up code (what state "
    "is left behind when a step raises half-way); the wire protocol and its framing; values of an unusual but legal type "
    "or shape; work skipped by an insufficient 'nothing to do' criterion; state kept at module or class level; anything a "
    "refactoring tool or a linter-driven clean-up could plausibly do (inlined helper, reordered statements, merged "
    "conditions, a comprehension instead of a loop with a side effect, `is` vs `==`, truthiness instead of `is None`).")

TESTS = {"C16": "tests/qs", "C17": "tests/qs", "C18": "tests/qs",
         "C19": "tests/qs tests/mwlib/test_nserve.py tests/mwlib/test_serve.py",
         "C20": "tests/mwlib/apps tests/mwlib/network tests/mwlib/test_render.py tests/mwlib/test_zipwiki.py",
         "C11": "tests/mwlib/network tests/mwlib/test_nuwiki.py tests/mwlib/test_zipwiki.py tests/mwlib/core"}

TMPL = '''You are helping to evaluate a verification tool. Work ONLY inside the scratch git worktree {wt} (a checkout of the open-source project pediapress/mwlib: a Python MediaWiki parser/renderer with a small job-queue server in src/qs). Do NOT read or touch /verif or /repo, and do not look for any verification machinery; your work must be independent.

Here is a semantic property that the code base is supposed to satisfy:

---
Title: {title}
Statement: {statement}
Quantifier: {quant}
Why the existing tests cannot settle it: {why}
Relevant files: {files}
---

Your task: produce THREE different, realistic code changes ("seeded bugs") to the project sources under {wt}/src, each of which BREAKS this property while the code still imports/compiles and the EXISTING test suite still passes. This is the {ord} round; about twenty ideas per property are used up (list below). Read ALL the relevant files completely before choosing, and look for what nobody has touched yet. {directions} Each change must need something specific to manifest and must come with a concrete reproducible demonstration of a violation of the property AS STATED.

ALREADY TRIED (do NOT repeat these or close variants):
{avoid}

For each change i in (1, 2, 3) deliver, in {out}/change<i>/ :
  - patch.diff : `git -C {wt} diff` for that change alone (apply one change at a time; run `git -C {wt} checkout -- .` between them so that each diff is relative to the pristine tree)
  - demo.py : a small self-contained program that exits non-zero with the change applied and exits 0 on the pristine tree. Run it as `cd {wt} && PYTHONPATH={wt}/src /venv/bin/python {out}/change<i>/demo.py`.
  - notes.md : 5-10 lines: what the change is, why it looks innocent, exactly what is needed for it to manifest, and why the existing tests do not notice.

How to run things: the interpreter is /venv/bin/python (Python 3.12, gevent, pytest installed; NO network). Existing tests: `cd {wt} && PYTHONPATH={wt}/src timeout 900 /venv/bin/python -m pytest -q -p no:cacheprovider --timeout=120 {tests}` -- they must still pass with each change applied (tests/qs/test_proc.py::test_run_cmd_execfail is flaky in this sandbox and tests/mwlib/test_odfwriter.py fails at collection even on the pristine tree; ignore those two). Confirm for each change: (a) relevant existing tests pass with it, (b) demo fails with it, (c) demo passes without it.

Do not commit anything. Leave the worktree pristine at the end (`git -C {wt} checkout -- .`). In your final answer, summarise the three changes in a few lines each and state the outcome of (a), (b), (c) for each.'''


def main():
    props = {}
    for line in open("/verif/properties.jsonl"):
        p = json.loads(line)
        props[p["id"]] = p
    tried = {}
    for sid in sorted(os.listdir("/verif/seeded")):
        m = json.load(open(f"/verif/seeded/{sid}/meta.json"))
        tried.setdefault(sid[:3].upper(), []).append(sid.split("-", 2)[2].replace("-", " ") + ": " + m["needs_to_manifest"][:100])
    for x in json.load(open("/verif/mutants.json"))["mutants"]:
        tried.setdefault(x["property"], []).append(x["id"].split("-", 1)[1].replace("-", " "))
    so = [f for f in glob.glob("/repo/src/**/*.so", recursive=True)]
    for pid in json.load(open("/verif/built.json")):
        d = f"/tmp/seed{N}-{pid}"
        subprocess.run(["rm", "-rf", d])
        os.makedirs(d)
        subprocess.run(["git", "-C", "/repo", "worktree", "add", "-q", "--detach", f"{d}/wt", "HEAD"], check=True)
        for f in so:
            subprocess.run(["cp", f, f"{d}/wt/" + os.path.relpath(f, "/repo")])
        p = props[pid]
        txt = TMPL.format(wt=f"{d}/wt", out=d, title=p["title"], statement=p["statement"], quant=p["quantifier"]["text"],
                          why=p["why_tests_cant"], files=", ".join(p["anchors"]["files"]), tests=TESTS[pid], ord=ORD,
                          directions=DIRECTIONS, avoid="\n".join("- " + t for t in tried.get(pid, [])))
        open(f"{d}/prompt.txt", "w").write(txt)
        print("prepared", d)


if __name__ == "__main__":
    main()
