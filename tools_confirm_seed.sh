#!/bin/sh
# usage: tools_confirm_seed.sh <PROP> <change-dir> <tests...>
# Confirms a sub-agent change in its scratch worktree: demo passes pristine, fails with the change,
# relevant existing tests pass with the change.  Leaves the worktree pristine.
P=$1; CH=$2; shift 2
WT=${SEEDROOT:-/tmp/seed}-$P/wt
demo=$(ls $CH/demo.py $CH/test_demo.py 2>/dev/null | head -1)
run_demo() { case "$demo" in *test_demo.py) (cd $WT && PYTHONPATH=$WT/src timeout 300 /venv/bin/python -m pytest -q -p no:cacheprovider $demo >/tmp/demo.out 2>&1);; *) (cd $WT && PYTHONPATH=$WT/src timeout 300 /venv/bin/python $demo >/tmp/demo.out 2>&1);; esac; echo $?; }
git -C $WT checkout -- . ; git -C $WT status --short | grep -v '\.so$' | head -3
echo "pristine demo exit: $(run_demo)"
git -C $WT apply $CH/patch.diff || { echo "PATCH DOES NOT APPLY"; exit 1; }
echo "changed demo exit: $(run_demo)"; tail -3 /tmp/demo.out
(cd $WT && PYTHONPATH=$WT/src timeout 1200 /venv/bin/python -m pytest -q -p no:cacheprovider --timeout=120 "$@" 2>&1 | tail -3)
git -C $WT checkout -- .
