"""Executable reference model of the queue server and the oracles of C16/C17/C18.

The model is driven by the simulator's execution stamps (the cooperative server's
linearisation order) and mirrors the *documented* semantics; where the implementation is
free (which eligible blocked worker is served) it resolves by observation.
No gevent, no heaps in here."""

import json
import hashlib

from .kernel import Violation

# violation class -> property
CLASS2PROP = {
    "I-loc": "C16", "I-dup": "C16", "I-drain": "C16", "I-lostwake": "C16", "I-unknown": "C16", "I-zombie": "C16",
    "R-elig": "C17", "R-notdone": "C17", "R-order": "C17", "R-final": "C17", "R-wait": "C17",
    "R-idem": "C17", "R-count": "C17", "R-ttl": "C17", "R-snap": "C17", "R-timeout": "C17",
    "R-error": "C17", "R-restart": "C18",
}

DEFAULT_TIMEOUT = 120.0
DEFAULT_TTL = 3600


class JobM:
    __slots__ = ("jobid", "serial", "channel", "priority", "payload", "deadline", "ttl",
                 "state", "holder", "result", "error", "info", "finished_at", "fin_ttl",
                 "deliveries", "requeues", "ttl_uncertain", "ttl_observed", "drop", "waited", "restored", "ttl_explicit")

    def __init__(self, jobid, serial, channel, priority, payload, deadline, ttl):
        self.jobid = jobid
        self.serial = serial
        self.channel = channel
        self.priority = priority
        self.payload = payload
        self.deadline = deadline
        self.ttl = ttl
        self.state = "q"  # q = unheld (queued or in flight to a blocked puller), h = held, d = done
        self.holder = None
        self.result = None
        self.error = None
        self.info = {}
        self.finished_at = None
        self.fin_ttl = None
        self.deliveries = 0
        self.requeues = 0
        self.ttl_uncertain = False
        self.ttl_observed = False
        self.drop = False
        self.restored = False  # lived through a server restart
        self.ttl_explicit = False  # the client asked for this time-to-live itself
        self.waited = False

    @property
    def key(self):
        return (self.priority, self.serial)

    def tag(self):
        return f"{self.jobid!r}#{self.serial}"


def _kind(error):
    if error is None:
        return "success"
    if error in ("timeout", "killed"):
        return error
    return "error"


class QsModel:
    """Observer + oracle.  Raises kernel.Violation from inside the callbacks; the driver
    lets it propagate (the run stops at the first violation)."""

    def __init__(self, sim=None, whitebox=True, own=None):
        self.sim = sim
        self.whitebox = whitebox
        self.own = own  # the property whose check is running (None: every class is fatal)
        self._ttl_pending = []
        self.foreign_seen = {}
        self.jobs = {}  # id -> current incarnation (present in the server's table)
        self.count = 0
        self.pulls = {}  # conn -> channels
        self.waits = {}  # conn -> [JobM]
        self.dead = set()
        self.finished_count = {}
        self.restarted = False
        self.inflight_possible = set()
        self._lot_of = {}  # job -> [(job, ended up queued?)...]: what one disconnect gave back, in push order
        self.event_no = 0
        self.expect = {}  # conn -> (event_no of exec, kind, value)
        self.pending_immediate = None  # (conn, JobM) a pull that must be answered at once
        self.draining = False
        self.probes = {}
        self.state_hashes = set()
        self.delivered_log = []

    # ---- helpers ---------------------------------------------------------------
    def probe(self, name, n=1):
        self.probes[name] = self.probes.get(name, 0) + n

    # violation classes that are pure observations at a quiescent point: the model's state
    # stays right when they are only recorded, so a check that does not own them can go on
    OBSERVATIONS = ("I-lostwake", "I-loc", "I-zombie", "R-snap")

    def _fail(self, cls, msg, **detail):
        if self.own is not None and cls in self.OBSERVATIONS and CLASS2PROP.get(cls) != self.own:
            self.foreign_seen[cls] = self.foreign_seen.get(cls, 0) + 1
            return
        raise Violation(cls, msg, detail=detail or None)

    def _eligible(self, channels):
        return [j for j in self.jobs.values()
                if j.state == "q" and (not channels or j.channel in channels)]

    def _blocked_match(self, channel):
        return [c for c, chans in self.pulls.items() if not chans or channel in chans]

    def _check_pending_immediate(self):
        if self.pending_immediate is not None:
            conn, j = self.pending_immediate
            self.pending_immediate = None
            if j.state == "d":
                # the candidate was overdue and got its timeout while the pull looked at it;
                # is anything else eligible for this (now blocked) puller?
                rest = self._eligible(self.pulls.get(conn) or []) if conn in self.pulls else []
                rest = [x for x in rest if x not in self.inflight_possible]
                if not rest:
                    return
                j = min(rest, key=lambda x: x.key)
            cls = "I-drain" if self.draining else "R-order"
            self._fail(cls, f"pull by {conn} not answered although job {j.tag()} "
                       f"(channel {j.channel}) is queued, unfinished and held by nobody",
                       conn=conn, job=j.tag())

    server_started_at = None
    max_now = 0.0
    OVERDUE_GRACE = 60.0

    def _reconcile_timeouts(self):
        """WHEN an overdue job is marked as timed out is not fixed by the properties: at the
        1 Hz sweep (today), or as soon as some request notices that the deadline has passed.
        A job whose deadline has passed and that the server already shows as timed out is
        therefore accepted as timed out from now on.  (Not later than the next sweep tick it
        MUST be - on_tick enforces that - and never before the deadline.)"""
        if self.sim is None or not self.whitebox:
            return
        now = self.sim.clock.time()
        # the server may have looked at its clock at any of its steps so far; the wall clock
        # can step back afterwards
        self.max_now = max(self.max_now, now)
        over = [j for j in self.jobs.values() if j.state != "d" and j.deadline <= self.max_now]
        if not over:
            return
        try:
            table = self.sim.workq.id2job
        except AttributeError:
            return
        for j in over:
            srv = table.get(j.jobid)
            if srv is not None and getattr(srv, "serial", None) == j.serial and getattr(srv, "done", False) \
                    and getattr(srv, "error", None) == "timeout":
                self.probe("timeout-applied-outside-the-sweep")
                self._finish(j, now, error="timeout")

    def _reconcile_drops(self):
        """A finished job marked by qdrop leaves the table at the moment a client's wait on it
        completes - inside waitjobs' loop, which may be well before that client's response when
        it waits for several jobs.  The instant is resolved by looking at the server's table;
        the disappearance is legitimate only for a finished, drop-marked job somebody waits (or
        waited) for."""
        if self.sim is None:
            return
        cand = [j for j in self.jobs.values() if j.drop and j.state == "d" and j.waited]
        if not cand:
            return
        try:
            table = self.sim.workq.id2job
        except AttributeError:
            return
        for j in cand:
            srv = table.get(j.jobid)
            if srv is None or getattr(srv, "serial", None) != j.serial:
                if self.jobs.get(j.jobid) is j:
                    del self.jobs[j.jobid]
                    self.probe("dropped-after-wait")

    def _event(self):
        self._reconcile_timeouts()
        self._check_pending_immediate()
        self._reconcile_drops()
        self.event_no += 1
        if self.restarted and self.server_started_at is None and self.sim is not None:
            self.server_started_at = self.sim.clock.time()

    def _observe_ttl(self):
        """Right after the server executed a finishing event: read the time-to-live it gave the
        jobs that just finished (an implementation constant for failed jobs).  From then on it
        is the job's time-to-live; it must not shrink later."""
        if not self._ttl_pending or self.sim is None:
            return
        pend, self._ttl_pending = self._ttl_pending, []
        try:
            table = self.sim.workq.id2job
            for j in pend:
                srv = table.get(j.jobid)
                if srv is not None and getattr(srv, "serial", None) == j.serial and isinstance(getattr(srv, "ttl", None), (int, float)):
                    # (a job that finished WITHOUT error and whose client asked for a time-to-live itself
                    # keeps at least that one)
                    if not (j.error is None and j.ttl_explicit and srv.ttl < j.ttl):
                        j.fin_ttl = srv.ttl
                    j.ttl_observed = True
        except AttributeError:
            pass

    def _finish(self, j, now, result=None, error=None, fin_ttl=None):
        if j.state == "d":
            return False
        self._ttl_pending.append(j)
        j.state = "d"
        j.holder = None
        j.result = result
        j.error = error
        j.finished_at = now
        j.fin_ttl = j.ttl if fin_ttl is None else fin_ttl
        c = self.finished_count.setdefault(j.channel, {"error": 0, "timeout": 0, "killed": 0, "success": 0})
        c[_kind(error)] += 1
        self.inflight_possible.discard(j)
        return True

    def _requeue(self, j):
        j.state = "q"
        j.holder = None
        j.requeues += 1
        if self._blocked_match(j.channel):
            self.inflight_possible.add(j)
            self.probe("requeue-while-waiter-blocked")

    def snapshot(self, j):
        return {"jobid": j.jobid, "serial": j.serial, "channel": j.channel, "priority": j.priority,
                "payload": j.payload, "done": j.state == "d",
                "result": j.result, "error": j.error, "info": j.info,
                "ttl": j.fin_ttl if j.state == "d" else j.ttl}

    def _cmp_snapshot(self, j, got, cls, what):
        if not isinstance(got, dict):
            self._fail(cls, f"{what}: expected a job snapshot for {j.tag()}, got {got!r}")
            return
        exp = self.snapshot(j)
        if j.state == "d":
            exp.pop("ttl", None)  # how long a finished job is kept is the server's business
        for k, v in exp.items():
            default = {"done": False, "result": None, "error": None, "info": {}, "ttl": DEFAULT_TTL}.get(k)
            g = got.get(k, default)
            if g != v:
                kls = cls
                if k in ("done", "result", "error") and cls == "R-snap":
                    kls = "R-final"
                self._fail(kls, f"{what}: job {j.tag()} field {k!r} is {g!r}, model says {v!r}",
                           job=j.tag(), field=k, got=g, expected=v)

    # ---- observer callbacks ----------------------------------------------------
    def on_exec(self, conn, rpc, args, now):
        self._event()
        h = getattr(self, "x_" + rpc, None)
        if h is None:
            self.expect[conn] = (self.event_no, "any", None)
            return
        h(conn, args, now)

    def x_qadd(self, conn, a, now):
        jobid = a.get("jobid")
        cur = self.jobs.get(jobid) if jobid is not None else None
        if cur is not None and cur.error != "killed":
            j = cur
            self.probe("re-add-existing")
            if cur.state == "d":
                self.probe("re-add-finished")
        else:
            if cur is not None:
                self.probe("re-add-after-kill")
            self.count += 1
            if jobid is None:
                # an automatic id never takes over an id that is in use
                while self.count in self.jobs:
                    self.count += 1
            timeout = a.get("timeout")
            ttl = a.get("ttl")
            j = JobM(jobid if jobid is not None else self.count, self.count, a["channel"],
                     a.get("priority", 0), a.get("payload"),
                     now + (DEFAULT_TIMEOUT if timeout is None else timeout),
                     DEFAULT_TTL if ttl is None else ttl)
            j.ttl_explicit = ttl is not None
            self.jobs[j.jobid] = j
            waiters = self._blocked_match(j.channel)
            if waiters:
                if any(x.state == "q" and x is not j for x in self.inflight_possible):
                    self.probe("second-push-same-quantum-while-waiter-blocked")
                self.inflight_possible.add(j)
                self.probe("push-while-waiter-blocked")
                if len(waiters) >= 2:
                    self.probe("push-while-2+-waiters-blocked")
        if a.get("wait"):
            j.waited = True
            self.waits[conn] = [j]
            self.expect[conn] = (self.event_no, "wait", [j])
        else:
            self.expect[conn] = (self.event_no, "value", j.jobid)

    def x_qpull(self, conn, a, now):
        channels = a.get("channels") or []
        self.pulls[conn] = channels
        elig = self._eligible(channels)
        if elig:
            if not any(j in self.inflight_possible for j in elig):
                best = min(elig, key=lambda j: j.key)
                self.pending_immediate = (conn, best)
                if len(elig) >= 2:
                    self.probe("ordered-pull-with-2+-candidates")
            else:
                self.probe("pull-with-ambiguous-candidates")
            self.expect[conn] = (self.event_no, "pull", elig)
        else:
            self.probe("pull-blocks")
            self.expect[conn] = (self.event_no, "pull", [])

    def x_qfinish(self, conn, a, now):
        j = self.jobs.get(a.get("jobid"))
        if j is None:
            self.expect[conn] = (self.event_no, "error", None)
            return
        error = a.get("error")
        if j.state == "d":
            self.probe("finish-after-" + _kind(j.error))
        elif j.holder is not None and j.holder != conn:
            self.probe("finish-by-non-holder")
        self._finish(j, now, result=a.get("result"), error=error,
                     fin_ttl=(min(10, j.ttl) if error else j.ttl))
        self.expect[conn] = (self.event_no, "value", None)

    def x_qkill(self, conn, a, now):
        for jid in a.get("jobids", []):
            j = self.jobs.get(jid)
            if j is None:
                continue
            if j.state == "d":
                self.probe("kill-after-" + _kind(j.error))
            elif j in self.inflight_possible:
                self.probe("kill-in-flight")
            elif j.state == "h":
                self.probe("kill-held")
            self._finish(j, now, error="killed")
        self.expect[conn] = (self.event_no, "value", None)

    def x_qsetinfo(self, conn, a, now):
        j = self.jobs.get(a.get("jobid"))
        if j is None:
            self.expect[conn] = (self.event_no, "error", None)
            return
        j.info.update(a.get("info") or {})
        self.expect[conn] = (self.event_no, "value", None)

    def x_qdrop(self, conn, a, now):
        # "mark jobs to be dropped when they are waited for": the next client that has waited
        # for such a job takes it out of the table
        for jid in a.get("jobids", []):
            j = self.jobs.get(jid)
            if j is not None:
                j.drop = True
                self.probe("drop-marked" + ("-finished" if j.state == "d" else ""))
        self.expect[conn] = (self.event_no, "value", None)

    def x_qinfo(self, conn, a, now):
        j = self.jobs.get(a.get("jobid"))
        self.expect[conn] = (self.event_no, "info", j)

    def x_qwait(self, conn, a, now):
        ids = a.get("jobids", [])
        js = [self.jobs.get(i) for i in ids]
        if any(j is None for j in js):
            self.expect[conn] = (self.event_no, "error", None)
            return
        for j in js:
            j.waited = True
        self.waits[conn] = js
        self.expect[conn] = (self.event_no, "wait", js)

    def x_getstats(self, conn, a, now):
        self.expect[conn] = (self.event_no, "stats", None)

    def on_resp(self, conn, rpc, args, payload, now):
        self._reconcile_timeouts()
        self._observe_ttl()
        self._reconcile_drops()
        exp = self.expect.pop(conn, None)
        # immediate = written in the same atomic step as the request's execution (no other
        # request, timer or disconnect was processed in between)
        immediate = exp is not None and exp[0] == self.event_no
        if exp is None:
            self._fail("R-error", f"unsolicited response on {conn}: {payload!r}")
        kind = exp[1]
        if "error" in payload and kind not in ("error", "any"):
            cls = "I-unknown" if rpc in ("qpull", "qadd") else "R-error"
            if self.own == "C19" and rpc == "qfinish":
                # the job's real state is what its worker reported (the model has applied it); the
                # refused report is C17's to flag, and C19 goes on to judge the status against it
                self.foreign_seen[cls] = self.foreign_seen.get(cls, 0) + 1
                return
            self._fail(cls, f"{rpc} on {conn} answered with an error: {payload['error']!r}", rpc=rpc)
        res = payload.get("result")
        if kind == "value":
            if res != exp[2]:
                self._fail("R-idem" if rpc == "qadd" else "R-error",
                           f"{rpc} {args!r} returned {res!r}, model says {exp[2]!r}")
        elif kind == "pull":
            self._resp_pull(conn, args, res, immediate)
        elif kind == "info":
            j = exp[2]
            if j is None:
                if res is not None:
                    self._fail("R-final", f"qinfo({args.get('jobid')!r}) returned a job the model does not know: {res!r}")
            else:
                if res is None:
                    self._fail("R-final", f"qinfo: job {j.tag()} vanished (state {j.state})", job=j.tag())
                self._cmp_snapshot(j, res, "R-snap", "qinfo")
        elif kind == "wait":
            js = exp[2]
            self.waits.pop(conn, None)
            got_ = [res] if rpc == "qadd" else (res if isinstance(res, list) else [])
            for j, g in zip(js, got_):
                # an overdue job may have got its timeout while some request looked at the
                # queue (see _reconcile_timeouts); the answer itself is the evidence then
                if j.state != "d" and j.deadline <= self.max_now and isinstance(g, dict) \
                        and g.get("done") and g.get("error") == "timeout":
                    self.probe("timeout-applied-outside-the-sweep")
                    self._finish(j, now, error="timeout")
            for j in js:
                if j.state != "d":
                    self._fail("R-wait", f"waiter {conn} released while job {j.tag()} is not finished", job=j.tag())
            got = [res] if rpc == "qadd" else res
            if not isinstance(got, list) or len(got) != len(js):
                self._fail("R-wait", f"wait response shape: {res!r}")
            for j, g in zip(js, got):
                self._cmp_snapshot(j, g, "R-snap", "wait result")
            # (jobs marked by qdrop leave the table inside waitjobs; see _reconcile_drops)
            self.probe("wait-released" + ("-immediately" if immediate else "-later"))
        elif kind == "stats":
            self._resp_stats(res)

    def _resp_pull(self, conn, args, res, immediate):
        channels = self.pulls.pop(conn, None)
        if self.pending_immediate is not None and self.pending_immediate[0] == conn:
            expected = self.pending_immediate[1]
            self.pending_immediate = None
        else:
            expected = None
        if expected is not None and expected.state == "d":
            # timed out while the pull looked at it: the next best candidate is due
            rest = [x for x in self._eligible(channels or []) if x not in self.inflight_possible]
            expected = min(rest, key=lambda x: x.key) if rest else None
        if not isinstance(res, dict):
            self._fail("I-unknown", f"qpull returned {res!r}")
        jid, serial = res.get("jobid"), res.get("serial")
        j = self.jobs.get(jid)
        if j is None or j.serial != serial:
            # maybe an older incarnation (killed and replaced) or a dropped job
            self._fail("R-notdone", f"{conn} was handed job {jid!r}#{serial} which is not a live job "
                       f"(current incarnation: {j.tag() if j else None})", job=f"{jid!r}#{serial}")
        if channels and j.channel not in channels:
            self._fail("R-elig", f"{conn} pulled channels {channels} and got {j.tag()} of channel {j.channel}",
                       job=j.tag())
        if j.state == "d":
            self._fail("R-notdone", f"{conn} was handed job {j.tag()} which already finished "
                       f"(error={j.error!r})", job=j.tag(), error=j.error)
        if self.server_started_at is not None and j.restored and j.deadline + self.OVERDUE_GRACE < self.server_started_at:
            self._fail("R-timeout", f"{conn} was handed job {j.tag()} whose deadline had passed "
                       f"{self.server_started_at - j.deadline:.0f} s before the restarted server came up "
                       f"(restored jobs are still subject to their timeout)", job=j.tag())
        if j.state == "h":
            self._fail("I-dup", f"{conn} was handed job {j.tag()} while {j.holder} still holds it",
                       job=j.tag(), holder=j.holder)
        if expected is not None and expected is not j:
            self._fail("R-order", f"{conn} pulled {channels} and got {j.tag()} (prio {j.priority}) but "
                       f"{expected.tag()} (prio {expected.priority}) is queued and comes first",
                       got=j.tag(), expected=expected.tag())
        if not immediate:
            self.probe("delivery-by-hand-off")
            lot = self._lot_of.get(j)
            if lot:
                # a disconnect gives all jobs of that connection back in one step: the blocked
                # worker must not get one of them when a better one of the same lot, pushed
                # back after it, found no taker and stayed queued
                self.probe("requeue-lot-handoff")
                pos = [k for k, (x, q) in enumerate(lot) if x is j and q is False]
                for x, q in (lot[pos[-1] + 1:] if pos else []):
                    if q is True and x is not j and x.key < j.key and (not channels or x.channel in channels):
                        self._fail("R-order", f"{conn} (pulling {list(channels or [])}) was handed {j.tag()} (prio {j.priority}) when "
                                   f"its holder went away, while {x.tag()} (prio {x.priority}), given back by the same "
                                   f"disconnect, comes first and was left in the queue", got=j.tag(), expected=x.tag())
            # a hand-off must not bypass a candidate that was already queued: such a job is
            # unheld, eligible for this puller and was not pushed in this quantum
            better = [x for x in self._eligible(channels or [])
                      if x is not j and x not in self.inflight_possible and x.key < j.key]
            if better:
                b = min(better, key=lambda x: x.key)
                self._fail("R-order", f"{conn} (pulling {channels}) was handed {j.tag()} (prio {j.priority}) while "
                           f"{b.tag()} (prio {b.priority}), queued before, is still waiting", got=j.tag(), expected=b.tag())
        self._cmp_snapshot(j, res, "R-snap", "qpull")
        j.state = "h"
        j.holder = conn
        j.deliveries += 1
        if j.deliveries > 1 + j.requeues:
            self._fail("I-dup", f"job {j.tag()} delivered {j.deliveries} times with {j.requeues} re-queues")
        self.inflight_possible.discard(j)
        self.delivered_log.append((conn, j.jobid, j.serial))

    def _resp_stats(self, res):
        if not isinstance(res, dict):
            self._fail("R-count", f"getstats returned {res!r}")
        if res.get("count") != self.count:
            self._fail("R-idem", f"getstats.count = {res.get('count')}, model created {self.count} jobs")
        if self.whitebox and res.get("numjobs") != len(self.jobs):
            self._fail("R-idem", f"getstats.numjobs = {res.get('numjobs')}, model knows {len(self.jobs)} jobs")
        c2s = res.get("channel2stat") or {}
        # (object keys are strings on the wire, whatever the channel name was)
        fin = {ch if isinstance(ch, str) else json.dumps(ch): v for ch, v in self.finished_count.items()}
        chans = set(c2s) | set(fin)
        for ch in chans:
            got = c2s.get(ch, {})
            exp = fin.get(ch, {})
            for kind in ("success", "error", "timeout", "killed"):
                if got.get(kind, 0) != exp.get(kind, 0):
                    self._fail("R-count", f"channel {ch!r}: counter {kind} = {got.get(kind, 0)}, "
                               f"model counted {exp.get(kind, 0)} finished jobs of that kind",
                               channel=ch, kind=kind)
        self.probe("stats-checked")

    def on_shutdown(self, conn, now):
        self._event()
        self.dead.add(conn)
        if conn in self.pulls:
            self.probe("disconnect-while-blocked-in-pull")
            del self.pulls[conn]
        if conn in self.waits:
            self.probe("disconnect-while-waiting")
            del self.waits[conn]
        self.expect.pop(conn, None)
        n = 0
        for j in list(self.jobs.values()):
            if j.state == "h" and j.holder == conn:
                self._requeue(j)
                n += 1
        if n:
            self.probe("disconnect-while-holding")
        # jobs held by this conn that belong to replaced incarnations are done: nothing to do

    def on_shutdown_done(self, conn, pushes):
        """`pushes`: [(jobid, serial, queued)] - what the connection's teardown pushed back, in order,
        and whether each job ended up in its channel queue (False: handed to a blocked puller)."""
        lot = []
        for jid, serial, queued in pushes:
            j = self.jobs.get(jid)
            if j is not None and j.serial == serial:
                lot.append((j, queued))
        if len(lot) >= 2:
            for j, _q in lot:
                self._lot_of[j] = lot

    def on_tick(self, kind, now):
        self._event()
        if kind == "handletimeouts":
            for j in sorted(self.jobs.values(), key=lambda j: j.serial):
                if j.state != "d" and j.deadline <= now:
                    if j.state == "h":
                        self.probe("timeout-while-held")
                    elif j in self.inflight_possible:
                        self.probe("timeout-in-flight")
                    else:
                        self.probe("timeout-while-queued")
                    self._finish(j, now, error="timeout")

    def on_tick_done(self, kind, now):
        self._observe_ttl()
        if kind == "watchdog":
            self.after_watchdog(now)
        elif kind.startswith("other:"):
            # a housekeeping function the simulator does not know by name: whatever it timed out or
            # dropped is taken from the server's table (never before the deadline / the time-to-live)
            self._reconcile_timeouts()
            self.after_watchdog(now)

    def after_watchdog(self, now):
        """Runs in the same atomic step as the watchdog tick: resolve TTL drops by looking
        at the server's job table, and bound them."""
        if self.sim is None:
            return
        try:
            table = self.sim.workq.id2job
            table.get
        except AttributeError:
            self.whitebox = False
            self.probe("whitebox-unavailable")
            return
        for jid, j in list(self.jobs.items()):
            srv = table.get(jid)
            if srv is not None and getattr(srv, "serial", None) == j.serial:
                if j.state == "d":
                    # the time-to-live the server itself applies to this finished job (the
                    # properties only say "dropped after its time-to-live", not how long it is)
                    obs = getattr(srv, "ttl", None)
                    if isinstance(obs, (int, float)) and not j.ttl_observed:
                        # ... except that a job which finished WITHOUT error and whose client asked for a
                        # time-to-live itself keeps at least that one
                        if not (j.error is None and j.ttl_explicit and obs < j.ttl):
                            j.fin_ttl = obs
                        j.ttl_observed = True
                continue
            if j.state != "d":
                self._fail("R-final", f"unfinished job {j.tag()} is no longer known to the server under its id "
                           f"(table holds {srv.jobid!r}#{srv.serial} done={srv.done})" if srv is not None else
                           f"unfinished job {j.tag()} disappeared from the server", job=j.tag())
            if not j.ttl_uncertain and now < j.finished_at + j.fin_ttl - 1:
                self._fail("R-ttl", f"finished job {j.tag()} dropped {now - j.finished_at:.1f}s after it "
                           f"finished, before its time-to-live of {j.fin_ttl}s", job=j.tag())
            if srv is None:
                del self.jobs[jid]
                self.probe("ttl-drop")

    def note_jump(self, delta):
        """The wall clock was stepped.  Time-to-live bookkeeping in the server is wall-clock
        based, so for jobs already finished the elapsed-ttl bound cannot be stated any more;
        jobs finishing after the jump are bounded exactly again."""
        for j in self.jobs.values():
            if j.state == "d":
                j.ttl_uncertain = True

    def on_restart(self, now):
        self._event()
        self.restarted = True
        for j in self.jobs.values():
            j.restored = True
            if j.state == "h":
                j.state = "q"
                j.holder = None
                j.requeues += 1
                self.probe("restart-while-held")
        if self.pulls:
            self.probe("restart-while-blocked-in-pull")
        if self.waits:
            self.probe("restart-while-waiting")
        self.pulls = {}
        self.waits = {}
        self.expect = {}
        self.dead = set()
        self.finished_count = {}
        self.inflight_possible = set()
        self.server_started_at = None  # set by the first event of the new server
        self.probe("restart")

    # ---- quiescent-point invariants -------------------------------------------
    def at_quiescence(self):
        self._reconcile_timeouts()
        self._check_pending_immediate()
        self._reconcile_drops()
        # no lost wake-up: a blocked puller and an eligible unheld job cannot coexist
        for conn, channels in self.pulls.items():
            elig = self._eligible(channels)
            if elig:
                j = min(elig, key=lambda j: j.key)
                self._fail("I-lostwake", f"{conn} is blocked pulling {channels} while job {j.tag()} "
                           f"is unfinished and held by nobody", conn=conn, job=j.tag())
        if self.sim is not None:
            # a connection the client closed (EOF or reset) must be gone for the server, too:
            # otherwise whatever it held is never re-queued
            for cid, sock in self.sim.socks.items():
                if sock.eof_sent and sock.epoch == self.sim.epoch and cid not in self.dead and sock.server_seen:
                    held = [j.tag() for j in self.jobs.values() if j.state == "h" and j.holder == cid]
                    self._fail("I-zombie", f"connection {cid} was closed by its client but the server never ended it"
                               + (f"; it still 'holds' {held}" if held else ""), conn=cid)
        if self.sim is not None:
            # the server serves: it does not hang up on a client that neither closed nor reset its
            # connection, and a request that does not have to wait for anything is answered.  (Without
            # this every other rule holds vacuously for a server that answers nobody.)
            for cid, sock in self.sim.socks.items():
                if sock.epoch != self.sim.epoch or sock.eof_sent or sock.broken:
                    continue
                g = sock.greenlet
                if cid in self.dead or (g is not None and g.dead):
                    self._fail("X-dead", f"the server ended connection {cid} although its client neither closed nor "
                               f"reset it" + (f" (request {sock.outstanding[0][0]} unanswered)" if sock.outstanding else ""),
                               conn=cid)
                if sock.outstanding and cid not in self.pulls and cid not in self.waits:
                    self._fail("X-dead", f"request {sock.outstanding[0][0]} on connection {cid} is never answered "
                               f"although it does not have to wait for anything", conn=cid)
        for conn, js in self.waits.items():
            if all(j.state == "d" for j in js):
                self._fail("R-wait", f"{conn} still waits although {[j.tag() for j in js]} are all finished",
                           conn=conn)
        self._lot_of = {}
        self.inflight_possible = set()
        if self.whitebox and self.sim is not None:
            try:
                self._check_locations()
            except (AttributeError, TypeError, KeyError):
                # the server's internals no longer look like channel2q / running_jobs: the
                # black-box rules (deliveries, drain) remain; never alarm on a refactoring
                self.whitebox = False
                self.probe("whitebox-unavailable")
        self.state_hashes.add(self.abstract_state())

    def _check_locations(self):
        sim = self.sim
        wq = sim.workq
        where = {}
        for ch, q in wq.channel2q.items():
            for sj in q:
                if not sj.done:
                    where.setdefault((sj.jobid, sj.serial), []).append(("queue", ch))
        for name, h in sim.handlers.items():
            sock = sim.socks.get(name)
            if name in self.dead or sock is None or sock.epoch != sim.epoch:
                continue
            g = sock.greenlet
            if g is None or g.dead:
                continue
            for sj in h.running_jobs.values():
                if not sj.done:
                    where.setdefault((sj.jobid, sj.serial), []).append(("worker", name))
        for j in self.jobs.values():
            if j.state == "d":
                continue
            locs = where.pop((j.jobid, j.serial), [])
            if len(locs) == 0:
                self._fail("I-loc", f"job {j.tag()} (channel {j.channel}) is lost: accepted, unfinished, "
                           f"in no channel queue and with no live worker", job=j.tag(), model_state=j.state)
                continue  # (only reached when the class is a recorded observation for this check)
            if len(locs) > 1:
                self._fail("I-loc", f"job {j.tag()} is in {len(locs)} places: {locs}", job=j.tag())
                continue
            kind, at = locs[0]
            if j.state == "q" and kind != "queue":
                self._fail("I-loc", f"job {j.tag()} should be queued but is with worker {at}", job=j.tag())
            if j.state == "q" and at != j.channel:
                self._fail("I-loc", f"job {j.tag()} of channel {j.channel} sits in the queue of {at}", job=j.tag())
            if j.state == "h" and (kind != "worker" or at != j.holder):
                self._fail("I-loc", f"job {j.tag()} should be with worker {j.holder} but is in {kind} {at}",
                           job=j.tag())
        for (jid, serial), locs in where.items():
            self._fail("I-loc", f"server holds unfinished job {jid!r}#{serial} at {locs} that the model "
                       f"does not know as live", job=f"{jid!r}#{serial}")

    def abstract_state(self):
        js = tuple(sorted(((repr(j.jobid), j.channel, j.priority, j.state, _kind(j.error) if j.state == "d" else "",
                            j.holder or "") for j in self.jobs.values()), key=repr))
        ps = tuple(sorted(((c, tuple(ch)) for c, ch in self.pulls.items()), key=repr))
        ws = tuple(sorted(self.waits, key=repr))
        return hashlib.blake2b(repr((js, ps, ws)).encode(), digest_size=8).digest()

    def unheld(self):
        return [j for j in self.jobs.values() if j.state == "q"]
