"""Synthetic MediaWiki for the fetch world (C11): a small in-process model of the API
surface the fetcher uses, a seeded world generator, and the independent closure the
oracle compares the archive with.

The world is an explicit JSON-able *spec* (so that a failing run can be minimised by
dropping spec elements):

  spec = {"lang": "en"|"de",
          "pages":   {fqtitle: {"revs": [[revid, text], ...], "users": [...], "anon": n}},
          "images":  {partial name: {"host": "local"|"commons", "size": n, "desc": text,
                                      "users": [...], "anon": n}},
          "metabook": [{"title": t, "rev": revid|None, "chapter": name|None}, ...]}
"""

import hashlib
import json
import os
import re
from urllib import parse

LOCAL_HOST = "wiki.example.org"
COMMONS_HOST = "commons.example.org"
UPLOAD_HOST = "upload.example.org"

_SITEINFO = {}


def siteinfo(lang):
    if lang not in _SITEINFO:
        import mwlib.network.siteinfo as si
        p = os.path.join(os.path.dirname(si.__file__), "known_sites", f"siteinfo-{lang}.json")
        with open(p, encoding="utf-8") as f:
            _SITEINFO[lang] = json.load(f)
    return _SITEINFO[lang]


NS_NAMES = {"en": {6: "File", 10: "Template"}, "de": {6: "Datei", 10: "Vorlage"}}
FILE_PREFIXES = ("file", "datei", "image", "bild")
TEMPLATE_RX = re.compile(r"\{\{([^{}|]+?)\}\}")
IMAGE_RX = re.compile(r"\[\[\s*(?:File|Datei|Image|Bild)\s*:\s*([^\]|#]+?)\s*(?:\|[^\]]*)?\]\]", re.I)
REDIRECT_RX = re.compile(r"^\s*#(?:REDIRECT|WEITERLEITUNG)\s*:?\s*\[\[([^\]|#]+)", re.I)


def thumb_bytes(name, size):
    out = bytearray()
    i = 0
    while len(out) < size:
        out += hashlib.sha256(f"{name}:{i}".encode()).digest()
        i += 1
    return bytes(out[:size])


class Site:
    """One wiki (the book's wiki, or the shared image repository)."""

    def __init__(self, host, lang, pages, images, shared_images=None, upload_host=UPLOAD_HOST, script_path="/w/",
                 article_path="/wiki/", shared_article_base=None):
        self.host = host
        self.lang = lang
        self.api_url = f"http://{host}{script_path}api.php"
        self.base_url = f"http://{host}{script_path}"
        self.article_base = f"http://{host}{article_path}"
        self.shared_article_base = shared_article_base or f"http://{COMMONS_HOST}/wiki/"
        self.file_ns = NS_NAMES[lang][6]
        self.tmpl_ns = NS_NAMES[lang][10]
        self.pages = pages  # fqtitle -> {"revs": [[revid, text], ...], "users": [...], "anon": n}
        self.images = images  # partial -> {...} hosted here
        self.shared_images = shared_images or {}  # partial -> {...} hosted on the shared repository
        self.pageids = {}
        self.revs = {}
        for i, t in enumerate(sorted(pages)):
            self.pageids[t] = 100 + i
            for revid, text in pages[t]["revs"]:
                self.revs[int(revid)] = (t, text)
        self.served_texts = set()
        self.request_log = []
        self.url_scheme = "http:"  # or "" : protocol-relative upload URLs

    # ---- titles -------------------------------------------------------------------
    def ns_of(self, title):
        if ":" in title:
            pre = title.split(":", 1)[0].lower()
            if pre in FILE_PREFIXES:
                return 6
            if pre in ("template", "vorlage"):
                return 10
        return 0

    def norm(self, title):
        """Canonical local fq title for the namespaces the worlds use."""
        title = title.replace("_", " ").strip()
        if title.startswith(":"):
            title = title[1:].strip()
        ns = self.ns_of(title)
        if ns:
            partial = title.split(":", 1)[1].strip()
            partial = partial[:1].upper() + partial[1:]
            return f"{self.file_ns if ns == 6 else self.tmpl_ns}:{partial}"
        return title[:1].upper() + title[1:]

    def current_text(self, title):
        p = self.pages.get(title)
        if not p or not p["revs"]:
            return None
        return p["revs"][-1][1]

    def current_revid(self, title):
        return self.pages[title]["revs"][-1][0]

    def redirect_target(self, title):
        txt = self.current_text(title)
        if txt is None:
            return None
        m = REDIRECT_RX.match(txt)
        return self.norm(m.group(1)) if m else None

    def resolve(self, title):
        """Follow redirects.  Returns (final title or None, chain of (from, to)); final is
        None for a cycle.  The final title may be missing."""
        chain = []
        seen = {title}
        cur = title
        while True:
            nxt = self.redirect_target(cur)
            if nxt is None:
                return cur, chain
            chain.append((cur, nxt))
            if nxt in seen:
                return None, chain
            seen.add(nxt)
            cur = nxt

    # ---- the wiki's own (trivial) template language ------------------------------------
    unresolvable = "link"  # what {{:Page}} gives for a missing page / dead or circular redirect

    def _unresolvable(self, t):
        return f"[[:{t}]]" if self.unresolvable == "link" else ""

    def expand(self, text, depth=0, stack=()):
        if depth > 12:
            return text

        def repl(m):
            name = m.group(1).strip()
            if name.startswith(":"):
                t = self.norm(name[1:])
                final, _ = self.resolve(t)
                if final is None or self.current_text(final) is None:
                    return self._unresolvable(t)
                body = self.current_text(final)
                key = final
            else:
                t = self.norm(f"{self.tmpl_ns}:{name}")
                final, _ = self.resolve(t)
                if final is None or self.current_text(final) is None:
                    return f"[[:{t}]]"
                body = self.current_text(final)
                key = final
            if key in stack:
                return f"<span class=\"error\">Template loop detected: [[{key}]]</span>"
            return self.expand(body, depth + 1, stack + (key,))

        return TEMPLATE_RX.sub(repl, text)

    def images_in(self, expanded_text):
        out = []
        for m in IMAGE_RX.finditer(expanded_text):
            partial = m.group(1).strip().replace("_", " ")
            partial = partial[:1].upper() + partial[1:]
            t = f"{self.file_ns}:{partial}"
            if t not in out:
                out.append(t)
        return out

    def image_record(self, fqtitle):
        partial = fqtitle.split(":", 1)[1]
        if partial in self.images:
            return self.images[partial], "local"
        if partial in self.shared_images:
            return self.shared_images[partial], "shared"
        return None, None

    # ---- API ----------------------------------------------------------------------------
    def handle(self, params):
        """params: dict of str -> str.  Returns a JSON-able dict."""
        self.request_log.append(dict(params))
        action = params.get("action")
        if action == "query":
            return self.api_query(params)
        if action == "parse":
            return self.api_parse(params)
        if action == "expandtemplates":
            text = params.get("text", "")
            out = self.expand(text)
            self.served_texts.add(out)
            return {"expandtemplates": {"wikitext": out}}
        return {"error": {"code": "unknown_action", "info": f"Unrecognized value for parameter 'action': {action}"}}

    def api_parse(self, p):
        if "oldid" in p:
            rev = self.revs.get(int(p["oldid"]))
            if rev is None:
                return {"error": {"code": "nosuchrevid", "info": f"There is no revision with ID {p['oldid']}."}}
            title, text = rev
            revid = int(p["oldid"])
        else:
            title = self.norm(p.get("page", ""))
            final, _ = self.resolve(title) if p.get("redirects") else (title, [])
            if final is None or self.current_text(final) is None:
                return {"error": {"code": "missingtitle", "info": "The page you specified doesn't exist."}}
            title, text, revid = final, self.current_text(final), self.current_revid(final)
        html = "<div class=\"mw-parser-output\"><p>%s</p></div>" % (
            self.expand(text).replace("&", "&amp;").replace("<", "&lt;"))
        return {"parse": {"title": title, "pageid": self.pageids.get(title, 0), "revid": revid, "text": {"*": html}}}

    def _page_stub(self, title):
        return {"pageid": self.pageids[title], "ns": self.ns_of(title), "title": title}

    def api_query(self, p):
        if p.get("meta") == "siteinfo":
            si = siteinfo(self.lang)
            want = p.get("siprop", "general").split("|")
            return {"query": {k: si[k] for k in want if k in si}}
        props = [x for x in p.get("prop", "").split("|") if x]
        q = {}
        pages = {}
        order = []  # list of (key, page dict, source text or None)
        redirects = []
        missing_n = 0

        def add_missing(title):
            nonlocal missing_n
            missing_n += 1
            key = str(-missing_n)
            pages[key] = {"ns": self.ns_of(title), "title": title, "missing": ""}
            if self.ns_of(title) == 6:
                rec, where = self.image_record(title)
                if rec is not None and where == "shared":
                    # MediaWiki's shape for a file of the shared repository: locally missing, but known
                    pages[key]["known"] = ""
                    pages[key]["imagerepository"] = "shared"
            order.append((key, pages[key], None, title))

        # MediaWiki takes at most 50 values per multi-value parameter from an ordinary client
        # and silently (with a warning nobody reads) ignores the rest
        if p.get("titles"):
            for raw in p["titles"].split("|")[:MAX_VALUES]:
                t = self.norm(raw)
                final = t
                if p.get("redirects"):
                    final, chain = self.resolve(t)
                    for a, b in chain:
                        ent = {"from": a, "to": b}
                        fm = re.match(r"^\s*#\w+\s*:?\s*\[\[[^\]|#]+#([^\]|]+)", self.current_text(a) or "")
                        if fm:
                            ent["tofragment"] = fm.group(1)  # a redirect into a section
                        if ent not in redirects:
                            redirects.append(ent)
                    if final is None:
                        continue  # circular: nothing to report
                if final in self.pages and self.current_text(final) is not None:
                    key = str(self.pageids[final])
                    if key not in pages:
                        pages[key] = self._page_stub(final)
                        order.append((key, pages[key], self.current_text(final), final))
                else:
                    if not any(pg.get("title") == final and int(k) < 0 for k, pg in pages.items()):
                        add_missing(final)
        bad = {}
        if p.get("revids"):
            for raw in p["revids"].split("|")[:MAX_VALUES]:
                rid = int(raw)
                rev = self.revs.get(rid)
                if rev is None:
                    bad[str(rid)] = {"revid": rid}
                    continue
                title, text = rev
                key = str(self.pageids[title])
                if key not in pages:
                    pages[key] = self._page_stub(title)
                    order.append((key, pages[key], text, title))
                pages[key].setdefault("_revs", []).append((rid, text))
        if bad:
            q["badrevids"] = bad
        if redirects:
            q["redirects"] = redirects
        qc = {}
        for prop in props:
            getattr(self, "prop_" + prop, lambda *a: None)(p, order, qc)
        for _, pg, _, _ in order:
            pg.pop("_revs", None)
        if pages:
            q["pages"] = pages
        out = {"query": q}
        if qc:
            out["query-continue"] = qc
        return out

    # each prop_* fills the page dicts; list-valued props honour limit + continuation
    def _paged(self, p, order, qc, prop, limit_key, cont_key, items_of):
        limit = int(p.get(limit_key, 10))
        flat = []
        for key, pg, text, title in order:
            for it in items_of(pg, text, title):
                flat.append((key, pg, it))
        start = int(p.get(cont_key, 0) or 0)
        chunk = flat[start:start + limit]
        for key, pg, it in chunk:
            pg.setdefault(prop, []).append(it)
        if start + limit < len(flat):
            qc[prop] = {cont_key: str(start + limit)}
        return start

    def prop_images(self, p, order, qc):
        def items(pg, text, title):
            if text is None:
                return []
            revs = pg.get("_revs")
            texts = [t for _, t in revs] if revs else [text]
            out = []
            for t in texts:
                for img in self.images_in(self.expand(t)):
                    if img not in [x["title"] for x in out]:
                        out.append({"ns": 6, "title": img})
            return out
        self._paged(p, order, qc, "images", "imlimit", "imcontinue", items)

    def prop_templates(self, p, order, qc):
        def items(pg, text, title):
            if text is None:
                return []
            out = []
            for m in TEMPLATE_RX.finditer(text):
                name = m.group(1).strip()
                if not name.startswith(":"):
                    t = self.norm(f"{self.tmpl_ns}:{name}")
                    if t not in [x["title"] for x in out]:
                        out.append({"ns": 10, "title": t})
            return out
        self._paged(p, order, qc, "templates", "tllimit", "tlcontinue", items)

    def prop_categories(self, p, order, qc):
        return None

    def prop_info(self, p, order, qc):
        for key, pg, text, title in order:
            pg["fullurl"] = f"{self.article_base}{parse.quote(title.replace(' ', '_'), safe=':')}"

    def prop_revisions(self, p, order, qc):
        rvprop = p.get("rvprop", "ids").split("|")
        for key, pg, text, title in order:
            if text is None:
                continue
            revs = pg.get("_revs") or [(self.current_revid(title), text)]
            out = []
            for rid, t in revs:
                r = {}
                if "ids" in rvprop or "content" in rvprop:
                    r["revid"] = rid
                if "content" in rvprop:
                    r["*"] = t
                    self.served_texts.add(t)
                if "user" in rvprop:
                    r["user"] = (self.pages[title].get("users") or ["Nobody"])[0]
                if "timestamp" in rvprop:
                    r["timestamp"] = "2020-01-01T00:00:00Z"
                out.append(r)
            pg["revisions"] = out

    def prop_imageinfo(self, p, order, qc):
        width = int(p.get("iiurlwidth", 800))
        for key, pg, text, title in order:
            if self.ns_of(title) != 6:
                continue
            rec, where = self.image_record(title)
            if rec is None:
                continue
            partial = title.split(":", 1)[1]
            u = parse.quote(partial.replace(" ", "_"))
            pg["imagerepository"] = where
            ns_on_host = self.file_ns if where == "local" else "File"
            desc_base = self.article_base if where == "local" else self.shared_article_base
            pg["imageinfo"] = [{
                # (wikis behind a protocol-agnostic front end report protocol-relative URLs)
                "url": f"{self.url_scheme}//{UPLOAD_HOST}/full/{u}",
                "thumburl": f"{self.url_scheme}//{UPLOAD_HOST}/thumb/{u}/{width}px-{u}",
                "thumbwidth": width, "thumbheight": width, "width": 2 * width, "height": 2 * width,
                "descriptionurl": f"{desc_base}{ns_on_host}:{u}",
                "sha1": hashlib.sha1(thumb_bytes(partial, rec["size"])).hexdigest(), "size": rec["size"],
                "user": (rec.get("users") or ["Uploader"])[0], "comment": "",
            }]

    def prop_contributors(self, p, order, qc):
        first_batch = not p.get("pccontinue")

        def items(pg, text, title):
            if text is None:
                return []
            if first_batch:
                pg["anoncontributors"] = self.pages[title].get("anon", 0)
            return [{"userid": 1000 + i, "name": n} for i, n in enumerate(self.pages[title].get("users", []))]
        self._paged(p, order, qc, "contributors", "pclimit", "pccontinue", items)

    # ---- what the wiki reports, for the oracle -------------------------------------------
    def reported_authors(self, title):
        p = self.pages.get(title)
        if p is None:
            return None
        names = sorted({n for n in p.get("users", []) if not re.search(r"bot$", n, re.I)})
        anon = p.get("anon", 0)
        if names or anon:
            names.append(f"ANONIPEDITS:{anon}")
        return names


class World:
    """The local wiki, the shared repository, the upload host and the metabook."""

    def __init__(self, spec):
        self.spec = spec
        lang = spec["lang"]
        local_imgs = {n: r for n, r in spec["images"].items() if r["host"] == "local"}
        shared_imgs = {n: r for n, r in spec["images"].items() if r["host"] == "commons"}
        pages = {t: dict(p) for t, p in spec["pages"].items()}
        file_ns = NS_NAMES[lang][6]
        for n, r in local_imgs.items():
            pages[f"{file_ns}:{n}"] = {"revs": [[r["descrev"], r["desc"]]], "users": r.get("users", []), "anon": r.get("anon", 0)}
        # "farm": the shared repository is another wiki of the same host, under /commons/
        farm = bool(spec.get("farm"))
        shared_base = f"http://{LOCAL_HOST}/commons/" if farm else f"http://{COMMONS_HOST}/wiki/"
        self.local = Site(LOCAL_HOST, lang, pages, local_imgs, shared_imgs, shared_article_base=shared_base)
        self.local.unresolvable = spec.get("unresolvable", "link")
        cpages = {}
        for n, r in shared_imgs.items():
            cpages[f"File:{n}"] = {"revs": [[r["descrev"], r["desc"]]], "users": r.get("users", []), "anon": r.get("anon", 0)}
        if farm:
            self.commons = Site(LOCAL_HOST, "en", cpages, shared_imgs, script_path="/commons/", article_path="/commons/")
        else:
            self.commons = Site(COMMONS_HOST, "en", cpages, shared_imgs)
        self.sites = {self.local.api_url: self.local, self.commons.api_url: self.commons}
        if spec.get("protocol_relative"):
            self.local.url_scheme = self.commons.url_scheme = ""
        self.downloads = []

    def site_for(self, url):
        base = url.split("?", 1)[0]
        return self.sites.get(base)

    def image_bytes(self, url):
        m = re.match(rf"http://{re.escape(UPLOAD_HOST)}/(?:thumb|full)/([^/]+)", url)
        if not m:
            return None
        partial = parse.unquote(m.group(1)).replace("_", " ")
        rec = self.spec["images"].get(partial)
        if rec is None:
            return None
        return thumb_bytes(partial, rec["size"])

    # ---- the closure the archive must equal ------------------------------------------------
    def expected(self):
        """Independent computation, from the spec, of what a complete and faithful archive
        holds for every metabook item."""
        w = self.local
        out = {"articles": [], "images": {}, "skipped": []}
        need_images = []
        for item in self.spec["metabook"]:
            title, rev = w.norm(item["title"]), item["rev"]
            entry = {"title": title, "rev": rev}
            if rev is not None:
                r = w.revs.get(int(rev))
                if r is None:
                    out["skipped"].append(entry)
                    continue
                rtitle, rtext = r
                text = w.expand(rtext)
                m = REDIRECT_RX.match(text)
                if m:
                    tgt = w.norm(m.group(1))
                    final, _ = w.resolve(tgt)
                    if final is None or w.current_text(final) is None:
                        out["skipped"].append(entry)
                        continue
                    entry["text"] = w.expand("{{:%s}}" % tgt)
                    entry["authors_of"] = final
                    entry["via_redirect"] = tgt
                else:
                    entry["text"] = text
                    entry["authors_of"] = rtitle
                entry["images"] = w.images_in(entry["text"])
            else:
                final, chain = w.resolve(title)
                if final is None or w.current_text(final) is None:
                    out["skipped"].append(entry)
                    continue
                entry["text"] = w.expand("{{:%s}}" % title)
                entry["authors_of"] = final
                entry["images"] = w.images_in(entry["text"])
                if chain:
                    entry["via_redirect"] = final
            out["articles"].append(entry)
            for img in entry["images"]:
                if img not in need_images:
                    need_images.append(img)
        for img in need_images:
            rec, where = w.image_record(img)
            if rec is None:
                continue
            partial = img.split(":", 1)[1]
            out["images"][img] = {"bytes": thumb_bytes(partial, rec["size"]), "desc": rec["desc"],
                                  "authors": (w if where == "local" else self.commons).reported_authors(
                                      img if where == "local" else f"File:{partial}"), "where": where}
        return out


# ---------------------------------------------------------------------------------------
WORDS = ["alpha", "beta", "gamma", "delta", "river", "stone", "cloud", "tree", "light", "wind", "Zürich", "naïve", "東京",
         "dos\r\nline", "mac\rline", "tab\there", "two\n\nparagraphs"]
USERS = ["Alice", "Bob", "Carol", "Dave", "Eve", "Mallory", "Trent", "Peggy", "Иван", "José"]
BOTS = ["CleanupBot", "xqbot", "ArchiveBOT", "SineBot"]


MAX_VALUES = 50


def gen_spec(rng, size="small"):
    lang = rng.choice(["en", "en", "de"])
    file_ns, tmpl_ns = NS_NAMES[lang][6], NS_NAMES[lang][10]
    revid = [1000]

    def next_rev():
        revid[0] += rng.randint(1, 5)
        return revid[0]

    def users():
        us = rng.sample(USERS, rng.randint(0, 4))
        us += rng.sample(BOTS, rng.randint(0, 2))
        rng.shuffle(us)
        return us, rng.choice([0, 0, 1, 3, 17])

    n_img = rng.randint(0, 6)
    images = {}
    for i in range(n_img):
        name = f"{rng.choice(['Pic', 'Map', 'Photo', 'Bild', 'A+B', 'R&D', 'Fig', 'File list', 'Datei', 'Eiffel'])} {i}{rng.choice(['', ' x', ' é'])}.{rng.choice(['png', 'jpg', 'svg'])}"
        us, anon = users()
        images[name] = {"host": rng.choice(["local", "commons", "commons"]), "size": rng.choice([1, 100, 5000, 40000]),
                        "desc": f"== Summary ==\nDescription of {name} {{{{Information}}}} by [[User:{rng.choice(USERS)}]]\n"
                                f"{' '.join(rng.choice(WORDS) for _ in range(rng.randint(1, 8)))}",
                        "descrev": next_rev(), "users": us, "anon": anon}
    img_names = sorted(images)
    ghost_images = ["Ghost 1.png"]  # referenced but not existing anywhere

    def img_ref():
        pool = img_names + (ghost_images if rng.random() < 0.15 else [])
        if not pool:
            return ""
        n = rng.choice(pool)
        return f"[[{rng.choice([file_ns, 'File', 'Image'])}:{n}|thumb|{rng.choice(WORDS)}]]"

    pages = {}
    # template trees to depth 3, some shared, some missing
    n_t = rng.randint(0, 5)
    tnames = [f"T{i}" for i in range(n_t)]
    for i, tn in enumerate(tnames):
        parts = [rng.choice(WORDS) for _ in range(rng.randint(1, 4))]
        if rng.random() < 0.6:
            parts.append(img_ref())
        deeper = [x for x in tnames[i + 1:]]
        if deeper and rng.random() < 0.6:
            parts.append("{{%s}}" % rng.choice(deeper))
        if rng.random() < 0.15:
            parts.append("{{MissingTemplate}}")
        us, anon = users()
        pages[f"{tmpl_ns}:{tn}"] = {"revs": [[next_rev(), " ".join(parts)]], "users": us, "anon": anon}

    def article_text():
        parts = [rng.choice(WORDS) for _ in range(rng.randint(2, 12))]
        for _ in range(rng.randint(0, 2)):
            parts.insert(rng.randrange(len(parts) + 1), img_ref())
        for _ in range(rng.randint(0, 2)):
            if tnames:
                parts.insert(rng.randrange(len(parts) + 1), "{{%s}}" % rng.choice(tnames))
        return " ".join(p for p in parts if p)

    n_a = rng.randint(1, 6 if size == "small" else 14)
    long_titles = rng.random() < 0.1
    if long_titles:
        n_a = max(n_a, rng.randint(10, 16))
    if size == "huge":
        n_a = rng.randint(MAX_VALUES + 6, MAX_VALUES + 20)  # a book with more articles than one request may name
    # titles with characters that must be escaped in a query string; a colon that is no namespace prefix
    anames = [f"{rng.choice(['Art', 'Über', 'Page', 'Art', 'Page', 'C++', 'Q&A', 'A=b', '50%', 'Saga: Part', 'Art'])} {i}"
              for i in range(n_a)]
    if long_titles:
        # long titles: a block of them makes a request URL of several thousand bytes
        tail = " – " + " ".join(rng.choice(["Ünïcödé", "Überschrift", "considerations", "東京都", "naïveté"]) for _ in range(rng.randint(6, 12)))
        anames = [a + tail for a in anames]
    if rng.random() < 0.25:
        # a title that is a number (a year): not to be mistaken for a revision id (those stay below 7000)
        anames[rng.randrange(n_a)] = str(7000 + rng.randrange(3000))
    for an in anames:
        revs = [[next_rev(), article_text()] for _ in range(rng.randint(1, 4))]
        us, anon = users()
        pages[an] = {"revs": revs, "users": us, "anon": anon}
    # the shared repository numbers its revisions on its own: a description page there may carry the
    # very revision id of one of our articles; and a file may have been uploaded without any description
    for n_ in sorted(images):
        if images[n_]["host"] == "commons" and rng.random() < 0.25:
            images[n_]["descrev"] = rng.choice(pages[rng.choice(anames)]["revs"])[0]
        if rng.random() < 0.08:
            images[n_]["desc"] = ""
    # redirects: chains of length 1-3, cycles, dead ends
    redirs = []
    for i in range(rng.randint(0, 3)):
        length = rng.randint(1, 3)
        target = rng.choice(anames)
        names = [f"Redir {i}.{k}" for k in range(length)]
        for k, n in enumerate(names):
            to = names[k + 1] if k + 1 < length else target
            us, anon = users()
            kw = rng.choice(["#REDIRECT", "#redirect", "#REDIRECT"]) if lang == "en" else rng.choice(["#REDIRECT", "#WEITERLEITUNG"])
            frag = "#Overview" if rng.random() < 0.2 else ""  # a redirect into a section of its target
            pages[n] = {"revs": [[next_rev(), f"{kw} [[{to}{frag}]]"]], "users": us, "anon": anon}
        redirs.append(names[0])
    special = []
    if rng.random() < 0.3:
        pages["Cycle A"] = {"revs": [[next_rev(), "#REDIRECT [[Cycle B]]"]], "users": [], "anon": 0}
        pages["Cycle B"] = {"revs": [[next_rev(), "#REDIRECT [[Cycle A]]"]], "users": [], "anon": 0}
        special.append("Cycle A")
    if "Cycle A" in pages and rng.random() < 0.5:
        pages["Into cycle"] = {"revs": [[next_rev(), "#REDIRECT [[Cycle B]]"]], "users": [], "anon": 0}
        special.append("Into cycle")
    if rng.random() < 0.3:
        pages["Dead end"] = {"revs": [[next_rev(), "#REDIRECT [[Nowhere at all]]"]], "users": [], "anon": 0}
        special.append("Dead end")
    # an article whose old revision was a redirect
    if rng.random() < 0.25:
        tgt = rng.choice(anames)
        us, anon = users()
        pages["Was redirect"] = {"revs": [[next_rev(), f"#REDIRECT [[{tgt}]]"], [next_rev(), article_text()]], "users": us, "anon": anon}
    # metabook
    mb = []
    pinned_older = set()
    cands = list(anames) + redirs + special + (["Was redirect"] if "Was redirect" in pages else [])
    rng.shuffle(cands)
    chapter = None
    for t in cands[: (len(cands) if size == "huge" else rng.randint(1, len(cands)))]:
        if rng.random() < 0.2:
            chapter = f"Chapter {len(mb)}" if rng.random() < 0.7 else None
        rev = None
        if t in pages and rng.random() < (0.4 if size != "huge" else 0.06):
            revs = pages[t]["revs"]
            rev = rng.choice(revs)[0]
            if rev != revs[-1][0]:
                pinned_older.add(t)
        mb.append({"title": t, "rev": rev, "chapter": chapter})
    if rng.random() < 0.3:
        mb.insert(rng.randrange(len(mb) + 1), {"title": "Missing page", "rev": None, "chapter": None})
    if rng.random() < 0.15:
        mb.append(dict(rng.choice(mb)))  # the same article twice
    if rng.random() < 0.12:
        # a revision id the wiki does not have (deleted revision, typo): a page that does not exist
        mb.insert(rng.randrange(len(mb) + 1), {"title": rng.choice(anames + ["Ghost"]), "rev": 9990000 + rng.randrange(1000),
                                               "chapter": None})
    if rng.random() < 0.2:
        # the same article both unpinned and at a pinned (often older) revision
        multi = [t for t in anames if len(pages[t]["revs"]) >= 2]
        if multi:
            t = rng.choice(multi)
            have = {(it["title"], it["rev"]) for it in mb}
            for rev in (None, rng.choice(pages[t]["revs"][:-1])[0]):
                if (t, rev) not in have:
                    mb.insert(rng.randrange(len(mb) + 1), {"title": t, "rev": rev, "chapter": None})
                    if rev is not None:
                        pinned_older.add(t)
    # exclusion from the property's quantifier: a redirect's target is not at the same time
    # listed with an older pinned revision
    site = Site(LOCAL_HOST, lang, pages, {}, {})
    targets = set()
    for it in mb:
        t = site.norm(it["title"])
        if it["rev"] is None:
            final, chain = site.resolve(t)
            if chain and final:
                targets.add(final)
        else:
            r = site.revs.get(int(it["rev"]))
            if r:
                m = REDIRECT_RX.match(r[1])
                if m:
                    final, _ = site.resolve(site.norm(m.group(1)))
                    if final:
                        targets.add(final)
    for it in mb:
        if it["rev"] is not None and site.norm(it["title"]) in targets and it["title"] in pinned_older:
            it["rev"] = None
    # a metabook carries its revision ids either all as integers or all as strings (JSON metabooks,
    # collection pages)
    return {"lang": lang, "pages": pages, "images": images, "metabook": mb, "revs_as_str": rng.random() < 0.3,
            "farm": rng.random() < 0.3, "unresolvable": rng.choice(["link", "link", "empty"]),
            "protocol_relative": rng.random() < 0.2, "long_titles": long_titles}
