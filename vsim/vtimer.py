"""Virtual gevent timers.

The SUT may use gevent's own timers (gevent.sleep(n), gevent.Timeout, Event.wait(timeout),
Greenlet.join(timeout), ...).  They all come from `hub.loop.timer(...)`.  While a simulation
runs, the hub's loop is wrapped by a proxy whose timer() returns a VirtualTimer that is
scheduled on the simulator's own timer heap and fires when *virtual* time reaches it, so no
deadline in the system reads the real clock."""

import gevent


class VirtualTimer:
    def __init__(self, owner, real_loop, after):
        self._owner = owner
        self._loop = real_loop
        self.after = max(0.0, float(after or 0.0))
        self.active = False
        self.pending = False
        self._gen = 0

    def start(self, callback, *args, **kw):
        self._gen += 1
        gen = self._gen
        self.active = True

        def fire():
            if self.active and gen == self._gen:
                self.active = False
                self._owner.count_timer_fired()
                self._loop.run_callback(callback, *args)

        self._owner.schedule_timer(self.after, fire)

    def again(self, callback, *args, **kw):
        self.start(callback, *args, **kw)

    def stop(self):
        self.active = False
        self._gen += 1

    def close(self):
        self.stop()

    def __enter__(self):
        return self

    def __exit__(self, *a):
        self.close()
        return False

    @property
    def ref(self):
        return True


class LoopProxy:
    def __init__(self, real_loop, owner):
        self._real = real_loop
        self._owner = owner

    def timer(self, after, repeat=0.0, ref=True, priority=None):
        return VirtualTimer(self._owner, self._real, after)

    def __getattr__(self, name):
        return getattr(self._real, name)


def install(owner):
    hub = gevent.get_hub()
    real = hub.loop
    if isinstance(real, LoopProxy):
        real = real._real
    hub.loop = LoopProxy(real, owner)
    return real


def uninstall(real):
    gevent.get_hub().loop = real
