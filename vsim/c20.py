"""C20 - output files appear atomically: a crash never leaves a partial file.

Every producer (status file, collection zip x3 entry points, image download, render
output) is run in a forked child under vsim.fsfault; for EVERY system-call position k of
its reference trace the child is killed / made to fail there, and the parent reads the
published paths the way their readers do."""

import hashlib
import io
import json
import os
import shutil
import time
import zipfile

from . import fsfault
from .fsfault import Fault
from .kernel import HarnessError, rng_for, stable_hash
from .runner import Stats, digest_dump, load_known, match_known

PROP = "C20"
PLAN = {"quick": {"budget_s": 50, "max_runs": 600}, "thorough": {"budget_s": 900, "max_runs": 40000, "real_writers": True}}
KINDS = ["status", "create_zip", "make_zip", "zipbuilder", "download", "render", "download_fetcher", "mwzip_main"]
BUFSIZES = [1, 64, 4096, 8192, 1 << 20]


def _blob(rng, n):
    # compressible-but-not-trivial deterministic content
    seed = rng.getrandbits(32)
    out = bytearray()
    i = 0
    while len(out) < n:
        out += hashlib.sha256(b"%d:%d" % (seed, i)).digest() * rng.choice([1, 1, 4, 16])
        i += 1
    return bytes(out[:n])


def _tree(rng, nfiles, maxsize):
    files = {}
    dirs = ["", "images", "images/a", "sub", "sub/deep/er"]
    for i in range(nfiles):
        d = rng.choice(dirs)
        name = (d + "/" if d else "") + f"f{i}.{rng.choice(['txt', 'json', 'db', 'png'])}"
        r = rng.random()
        size = 0 if r < 0.1 else (rng.randrange(1, 200) if r < 0.5 else rng.randrange(200, maxsize))
        files[name] = size
    return files


REAL_WRITER_EVERY = 23  # thorough tier: every 23rd scenario renders with the real rl / odf writer


def draw_scenario(seed, i, kind=None, real_writers=False):
    rng = rng_for(seed, PROP, i)
    kind = kind or KINDS[i % len(KINDS)]
    if real_writers and i % REAL_WRITER_EVERY == REAL_WRITER_EVERY - 1:
        kind = "render_real"
    p = {"kind": kind, "index": i, "prev": rng.random() < 0.5,
         "bufsizes": [rng.choice(BUFSIZES) for _ in range(rng.randint(1, 4))],
         "name_seed": rng.getrandbits(32), "content_seed": rng.getrandbits(32),
         # configuration: is the output directory a file system of its own (renames from TMPDIR fail with EXDEV)?
         "exdev": rng.random() < 0.5}
    if kind in ("status", "create_zip", "make_zip", "zipbuilder"):
        # a second producer at work in the same directory, on a file of its own next to ours (another
        # writer's status file, another archive).  Two producers of the SAME file are not explored: the
        # property is quantified over each producer's own operation sequence, and the unchanged tree's
        # status writer (fixed name filename + '.tmp') is not safe against that either.
        p["pair"] = rng.choice([None, None, "other"])
        # the published name is a symbolic link into some storage place (zips); the status file's
        # directory does not exist (purged, or not yet created)
        p["symlink"] = kind != "status" and rng.random() < 0.15
        p["missing_dir"] = kind == "status" and rng.random() < 0.12
    if kind == "status":
        n = rng.randint(1, 5)
        ups = []
        for _ in range(n):
            big = rng.random() < 0.25
            ups.append({"status": rng.choice(["fetching", "parsing", "rendering", None]),
                        "progress": rng.choice([None, rng.randrange(0, 101)]),
                        "article": None if rng.random() < 0.3 else "A" * (rng.randrange(20000, 200000) if big else rng.randrange(1, 60)),
                        "sub": rng.random() < 0.3, "extra": rng.random() < 0.3,
                        # a keyword value JSON cannot encode (an exception object, a set): the update fails
                        # with TypeError; what is published must still be a complete earlier version
                        "unenc": rng.choice(["exc", "set"]) if rng.random() < 0.12 else None})
        p["updates"] = ups
    elif kind in ("create_zip", "make_zip", "zipbuilder", "mwzip_main"):
        big = rng.random() < 0.2
        p["tree"] = _tree(rng, rng.randint(1, 12 if not big else 5), 3000 if not big else 120000)
        p["prev_tree"] = _tree(rng, rng.randint(1, 4), 2000)
        if rng.random() < 0.07:
            p["tree"] = {}  # nothing to put into the archive: what is published is still a complete (empty) archive
        p["status_file"] = kind in ("zipbuilder", "mwzip_main") and rng.random() < 0.7
        p["keep_tmpfiles"] = rng.random() < 0.4
        many = rng.random() < 0.08
        if many and real_writers:  # thorough tier only: several hundred positions
            p["tree"] = _tree(rng, rng.randint(50, 70), 260)  # many small members
    elif kind == "download":
        n = rng.randint(0, 6)
        p["chunks"] = [rng.choice([1, 100, 4096, 16384, 16384, 70000]) for _ in range(n)]
        p["mode"] = rng.choice(["ok", "ok", "429-then-ok", "read-error", "429-forever"])
        # the response's headers: Content-Length counts the bytes on the wire (of the compressed body when
        # the server applies Content-Encoding: gzip - usual for SVG), or is absent (chunked transfer)
        p["encoding"] = rng.choice([None, None, "gzip", "gzip", "chunked"])
        p["prev_size"] = rng.randrange(1, 5000)
        # the scratch file of an earlier transfer that broke in mid-body is still lying around
        p["leftover"] = rng.randrange(1, 40000) if rng.random() < 0.35 else 0
    elif kind == "download_fetcher":
        # several images through Fetcher._download_image (its own temp-name choice, its pools);
        # the same URL may be scheduled under two titles (File:/Datei: aliases, titles derived from URLs)
        urls = [f"http://upload.example.org/thumb/{n}/800px-{n}" for n in ("FileMap.png", "Über x.jpg", "c.svg")][: rng.randint(1, 3)]
        dl = []
        for _ in range(rng.randint(2, 4)):
            u = rng.randrange(len(urls))
            title = rng.choice(["File", "Datei", "Image"]) + ":" + urls[u].rsplit("/", 2)[1]
            if [u, title] not in dl:
                dl.append([u, title])
        if rng.random() < 0.35:
            # two long non-ASCII file names that differ only at the very end (pages of one scanned book):
            # their escaped names are well over 200 characters, still below the file system's limit
            stem = "Энциклопедический словарь том второй стр"
            for k in (1, 2):
                name = f"{stem} {k}.jpg"
                urls.append(f"http://upload.example.org/thumb/{name}/800px-{name}")
                dl.append([len(urls) - 1, "File:" + name])
        p["urls"] = urls
        p["downloads"] = dl
        p["bodies"] = [[rng.choice([100, 8192, 16384, 16384, 20000]) for _ in range(rng.randint(1, 5))] for _ in urls]
        p["max_connections"] = rng.choice([1, 2, 3, 10])
        p["prev_size"] = rng.randrange(1, 5000)
        # a slow or stalled server: some chunk arrives only after this many (virtual) seconds
        p["stalls"] = [[rng.choice([0, 0, 0, 0, 30, 400, 5000]) for _ in sizes] for sizes in p["bodies"]]
        # network fault: the first attempt at this URL loses its connection before chunk k (None: never);
        # the server ignores Range headers and always answers 200 with the full body
        p["break_before"] = [rng.choice([None, None, None, 0, 1, 2]) for _ in urls]
    elif kind == "render_real":
        p["writer"] = rng.choice(["rl", "rl", "odf"])
        rng.randint(1, 2)  # (kept for the parameter stream)
        # one article: with two the rl writer adds a table of contents, which fails on the unchanged tree with
        # the installed reportlab ("flowable given negative availWidth", mwlib/writers/rl/toc.py) - see DESIGN 12
        p["articles"] = 1
        p["prev_size"] = rng.randrange(1, 5000)
        p["status_file"] = True
        p["bufsizes"] = [rng.choice([8192, 1 << 20])]
    elif kind == "render":
        n = rng.randint(1, 8)
        p["chunks"] = [rng.choice([10, 1000, 8192, 9000, 100000]) for _ in range(n)]
        p["flush_after"] = [rng.random() < 0.3 for _ in range(n)]
        p["seek_back"] = rng.random() < 0.4
        p["writer_fails"] = rng.random() < 0.15
        p["prev_size"] = rng.randrange(1, 5000)
        p["status_file"] = rng.random() < 0.8
    return p


# ---------------------------------------------------------------------------------
class Scenario:
    """One producer run: where things live, how to set the stage, what to run in the
    child, and what a reader must find afterwards."""

    def __init__(self, p, root):
        self.p = p
        self.root = root
        self.src = os.path.join(root, "src")  # immutable inputs (outside the watched dir)
        self.out = os.path.join(root, "out")  # the watched directory
        import random
        self.crng = random.Random(p["content_seed"])
        self.may_fail = set()  # labels whose producer step is scripted to fail
        self.published = {}  # label -> path
        self.prev = {}  # label -> bytes or None
        self.new = {}  # label -> expected content descriptor
        getattr(self, "prepare_" + p["kind"])()
        if p.get("pair") == "other":
            if p["kind"] == "status":
                self.published["status_sib"] = os.path.join(self.out, "status.rl")  # same stem, other suffix
                self.prev["status_sib"] = None
            else:
                self.published["zip_sib"] = os.path.join(self.out, "collection.other.zip")
                self.prev["zip_sib"] = None
                self.new["zip_sib"] = self.contents

    # -- stage ------------------------------------------------------------------
    def reset_out(self):
        shutil.rmtree(self.out, ignore_errors=True)
        os.makedirs(self.out)
        for label, path in self.published.items():
            if self.p.get("missing_dir") and label == "status":
                continue  # the directory of the status file is not there
            os.makedirs(os.path.dirname(path), exist_ok=True)
            if self.p.get("symlink") and label == "zip":
                store = os.path.join(self.out, "store")
                os.makedirs(store, exist_ok=True)
                if self.prev.get(label) is not None:
                    with open(os.path.join(store, "real.zip"), "wb") as f:
                        f.write(self.prev[label])
                os.symlink(os.path.join("store", "real.zip"), path)  # dangling when there is no previous version
                continue
            if self.prev.get(label) is not None:
                with open(path, "wb") as f:
                    f.write(self.prev[label])

    def _write_tree(self, base, tree, rng):
        contents = {}
        for name, size in sorted(tree.items()):
            path = os.path.join(base, name)
            os.makedirs(os.path.dirname(path), exist_ok=True)
            data = _blob(rng, size)
            with open(path, "wb") as f:
                f.write(data)
            contents[name] = data
        return contents

    # -- the second producer (fault kind "sibling") -----------------------------------
    SIBLING_STATUS = {"status": "sibling at work", "progress": 42, "article": "B" * 300}

    def sibling(self):
        same = self.p.get("pair") == "same"
        if self.p["kind"] == "status":
            from mwlib.utils.status import Status
            st = Status(filename=self.published["status" if same else "status_sib"])
            st.stdout = None
            st(**self.SIBLING_STATUS)
        else:
            from mwlib.apps.buildzip import ZipCreator
            ZipCreator.create_zip(os.path.join(self.src, "tree"), self.published["zip" if same else "zip_sib"])

    # -- status --------------------------------------------------------------------
    def prepare_status(self):
        self.published["status"] = os.path.join(self.out, "status.json")
        self.prev["status"] = json.dumps({"status": "previous run", "progress": 100}).encode() if self.p["prev"] else None
        if self.p.get("missing_dir"):
            self.published["status"] = os.path.join(self.out, "job-dir-that-is-gone", "status.json")
            self.prev["status"] = None

    def produce_status(self, tracer):
        from mwlib.utils.status import Status
        st = Status(filename=self.published["status"])
        st.stdout = None
        versions = []
        for i, u in enumerate(self.p["updates"]):
            tracer.mark(["dump", i])
            target = st
            if u["sub"]:
                target = st.get_sub_range(10, 60)
                target.stdout = None
            kw = {}
            if u["extra"]:
                kw["content_type"] = "application/pdf"
            if u.get("unenc"):
                kw["detail"] = ValueError("boom") if u["unenc"] == "exc" else {1, 2}
            try:
                target(status=u["status"], progress=u["progress"], article=u["article"], **kw)
            except TypeError:
                if not u.get("unenc"):
                    raise
                # the caller drops the offending value and carries on; nothing was published by this update
                st.status.pop("detail", None)
                versions.append(versions[-1] if versions else "null")
                continue
            versions.append(json.dumps(st.status, default=repr))
        return {"versions": versions}

    # -- zips ------------------------------------------------------------------------
    def _prepare_zip(self):
        self.published["zip"] = os.path.join(self.out, "collection.zip")
        self.contents = self._write_tree(os.path.join(self.src, "tree"), self.p["tree"], self.crng)
        if self.p["prev"]:
            prev_contents = self._write_tree(os.path.join(self.src, "prev"), self.p["prev_tree"], self.crng)
            bio = io.BytesIO()
            with zipfile.ZipFile(bio, "w", zipfile.ZIP_DEFLATED) as zf:
                for n, d in sorted(prev_contents.items()):
                    zf.writestr(n, d)
            self.prev["zip"] = bio.getvalue()
        else:
            self.prev["zip"] = None
        self.new["zip"] = self.contents

    def prepare_create_zip(self):
        self._prepare_zip()

    def produce_create_zip(self, tracer):
        from mwlib.apps.buildzip import ZipCreator
        ZipCreator.create_zip(os.path.join(self.src, "tree"), self.published["zip"])

    def prepare_make_zip(self):
        self._prepare_zip()

    def _stub_make_nuwiki(self):
        contents = self.contents

        def make_nuwiki(fsdir, metabook=None, wiki_options=None, pod_client=None, status=None, **kw):
            os.makedirs(fsdir)
            for name, data in sorted(contents.items()):
                path = os.path.join(fsdir, name)
                os.makedirs(os.path.dirname(path), exist_ok=True)
                with open(path, "wb") as f:
                    f.write(data)
            if status is not None:
                status(status="fetching", progress=50)

        return make_nuwiki

    def produce_make_zip(self, tracer):
        from mwlib.apps import buildzip
        buildzip.make_nuwiki = self._stub_make_nuwiki()
        buildzip.make_zip(output=self.published["zip"], wiki_options={"keep_tmpfiles": bool(self.p.get("keep_tmpfiles"))},
                          metabook=None, status=None)

    def prepare_zipbuilder(self):
        self._prepare_zip()
        if self.p["status_file"]:
            self.published["status"] = os.path.join(self.out, "zip-status.json")
            self.prev["status"] = json.dumps({"status": "previous"}).encode() if self.p["prev"] else None

    def produce_zipbuilder(self, tracer):
        from mwlib.apps import buildzip
        from mwlib.core.metabook import Collection
        from mwlib.utils.status import Status
        Status.stdout = None
        buildzip.make_nuwiki = self._stub_make_nuwiki()

        class Env:
            metabook = Collection()
            images = None
        Env.metabook.append_article("A")
        buildzip.make_wiki_env_from_options = lambda metabook, wiki_options: Env
        cfg = buildzip.BuildConfig(
            output=self.published["zip"], posturl=None, getposturl=0, keep_tmpfiles=bool(self.p.get("keep_tmpfiles")),
            status_file=self.published.get("status"), config=":en", imagesize=800, metabook=Env.metabook,
            collectionpage=None, noimages=False, logfile=None, username=None, password=None, domain=None,
            title=None, subtitle=None, editor=None, script_extension=".php")
        res = buildzip.ZipBuilder(cfg).build(None)
        if not res.success:
            raise RuntimeError(f"build failed: {res.error!r}")

    # -- the mw-zip command itself -----------------------------------------------------
    def prepare_mwzip_main(self):
        self.prepare_zipbuilder()

    def produce_mwzip_main(self, tracer):
        """buildzip.main as the command line calls it (option validation, config object,
        ZipBuilder); only the network side (environment, make_nuwiki) is a stand-in."""
        from mwlib.apps import buildzip
        from mwlib.core.metabook import Collection
        from mwlib.utils.status import Status
        Status.stdout = None
        buildzip.make_nuwiki = self._stub_make_nuwiki()

        class Env:
            metabook = Collection()
            images = None
        Env.metabook.append_article("A")
        buildzip.make_wiki_env_from_options = lambda metabook, wiki_options: Env
        buildzip.setup_console_logging = lambda **kw: None
        buildzip.main.callback(
            output=self.published["zip"], posturl=None, getposturl=0, keep_tmpfiles=bool(self.p.get("keep_tmpfiles")),
            status_file=self.published.get("status"), config=":en", imagesize=800,
            metabook='{"type": "Collection", "version": 1, "items": [{"type": "Article", "title": "A"}]}',
            collectionpage=None, noimages=False, logfile=None, username=None, password=None, domain=None,
            title=None, subtitle=None, editor=None, script_extension=".php", args=())

    # -- download ------------------------------------------------------------------
    def prepare_download(self):
        self.published["image"] = os.path.join(self.out, "images", "Foo.png")
        self.prev["image"] = _blob(self.crng, self.p["prev_size"]) if self.p["prev"] else None
        self.body_chunks = [_blob(self.crng, n) for n in self.p["chunks"]]
        if self.p.get("encoding") == "gzip":  # a body that compresses well (mark-up)
            pat = b"<path d='M0 0L1 1' style='fill:none'/>\n"
            self.body_chunks = [(pat * (n // len(pat) + 1))[:n] for n in self.p["chunks"]]
        if self.body_chunks and self.p["index"] % 3 == 0:
            head = b"\xef\xbb\xbf<svg xmlns='http://www.w3.org/2000/svg'>"  # XML with a byte-order mark
            self.body_chunks[0] = (head + self.body_chunks[0][len(head):]) if len(self.body_chunks[0]) > len(head) else head
        self.new["image"] = b"".join(self.body_chunks)

    def produce_download(self, tracer):
        import httpx
        from mwlib.network import fetch
        chunks, mode = self.body_chunks, self.p["mode"]
        encoding = self.p.get("encoding")
        calls = [0]

        class Resp:
            def __init__(self, status):
                self.status_code = status
                h = {"content-type": "image/svg+xml" if status < 400 else "text/html"}
                if status < 400 and encoding == "gzip":
                    import gzip
                    h["content-encoding"] = "gzip"
                    h["content-length"] = str(len(gzip.compress(b"".join(chunks), mtime=0)))
                elif status < 400 and encoding != "chunked":
                    h["content-length"] = str(sum(len(c) for c in chunks))
                self.headers = httpx.Headers(h)

            def raise_for_status(self):
                if self.status_code >= 400:
                    req = httpx.Request("GET", "http://img.example.org/Foo.png")
                    raise httpx.HTTPStatusError("status", request=req, response=httpx.Response(self.status_code, request=req))

            def iter_bytes(self, chunk_size=None):
                if self.status_code >= 400:
                    yield b"<html><body><h1>429 Too Many Requests</h1></body></html>"  # not the image
                    return
                for i, c in enumerate(chunks):
                    if mode == "read-error" and i == len(chunks) // 2:
                        raise httpx.ReadError("connection reset (injected)")
                    yield c
                if mode == "read-error" and not chunks:
                    raise httpx.ReadError("connection reset (injected)")

            def __enter__(self):
                return self

            def __exit__(self, *a):
                return False

        class Client:
            def stream(self, method, url):
                calls[0] += 1
                if mode == "429-forever" or (mode == "429-then-ok" and calls[0] == 1):
                    return Resp(429)
                return Resp(200)

        import time as _t

        class FakeTime:
            sleep = staticmethod(lambda d: None)
            time = staticmethod(_t.time)
            monotonic = staticmethod(_t.monotonic)

        fetch._get_download_client = lambda url: Client()
        fetch._acquire_download_rate_limit = lambda url: None
        fetch.time = FakeTime
        path = self.published["image"]
        temp_path = (path + "\xb7").encode("utf-8")  # as Fetcher.schedule_download_image does
        fetch.download_to_file("http://img.example.org/Foo.png", path, temp_path, max_retries=2, initial_delay=0.01)

    # -- download through the Fetcher -------------------------------------------------
    def prepare_download_fetcher(self):
        from mwlib.utils import unorganized
        self.url_bodies = [b"".join(_blob(self.crng, n) for n in sizes) for sizes in self.p["bodies"]]
        for i, url in enumerate(self.p["urls"]):
            if url.endswith(".svg") and self.url_bodies[i]:
                # an XML document saved with a byte-order mark
                head = b"\xef\xbb\xbf<svg xmlns='http://www.w3.org/2000/svg'>"
                self.url_bodies[i] = head + self.url_bodies[i][len(head):]
        for i, (u, title) in enumerate(self.p["downloads"]):
            label = f"image{i}"
            self.published[label] = os.path.join(self.out, "images", unorganized.fs_escape(title))
            self.prev[label] = _blob(self.crng, self.p["prev_size"]) if (self.p["prev"] and i % 2 == 0) else None
            self.new[label] = self.url_bodies[u]
            # a scripted connection loss makes this download fail legitimately: absent/previous is fine
            if self.p.get("break_before", [None] * len(self.p["urls"]))[u] is not None:
                self.may_fail.add(label)

    def produce_download_fetcher(self, tracer):
        import gevent
        import gevent.pool
        from mwlib.network import fetch
        p = self.p
        bodies = {url: (self.url_bodies[i], p["bodies"][i]) for i, url in enumerate(p["urls"])}
        stalls = {url: p.get("stalls", [[0] * len(s) for s in p["bodies"]])[i] for i, url in enumerate(p["urls"])}

        import httpx
        attempts = {}
        breaks = {url: p.get("break_before", [None] * len(p["urls"]))[i] for i, url in enumerate(p["urls"])}

        class Resp:
            status_code = 200
            headers = {}

            def __init__(self, url, attempt):
                self.url = url
                self.attempt = attempt

            def raise_for_status(self):
                pass

            def iter_bytes(self, chunk_size=None):
                body, sizes = bodies[self.url]
                off = 0
                for k, (n, stall) in enumerate(zip(sizes, stalls[self.url])):
                    gevent.sleep(stall)  # the next chunk arrives later (virtual time): other downloads run
                    if self.attempt == 1 and breaks[self.url] is not None and k == breaks[self.url]:
                        raise httpx.ReadError("connection reset by peer (injected)")
                    yield body[off:off + n]
                    off += n

            def __enter__(self):
                return self

            def __exit__(self, *a):
                return False

        class Client:
            def __init__(self, url):
                self.url = url

            def stream(self, method, url, **kw):
                gevent.sleep(0)
                attempts[url] = attempts.get(url, 0) + 1
                return Resp(url, attempts[url])

        fetch._get_download_client = lambda url: Client(url)
        fetch._acquire_download_rate_limit = lambda url: None
        gevent.get_hub().handle_error = lambda *a: None  # failing downloads die quietly, like in a real fetch
        # a real Fetcher (its own __init__, pools and attributes) over a stand-in API and a
        # stand-in output object: only the image path logic of FsOutput is used here
        from mwlib.utils import conf
        from . import wiki as _wiki
        if not conf.config.has_section("fetch"):
            conf.config.add_section("fetch")
        conf.config["fetch"]["max_connections"] = str(p["max_connections"])

        class Api:
            apiurl = baseurl = "http://wiki.example.org/w/api.php"
            api_request_limit = 15
            qccount = 0

            def report(self):
                pass

            def get_siteinfo(self):
                return _wiki.siteinfo("en")

            def idle(self):
                return True

        class Out(fetch.FsOutput):
            def write_siteinfo(self, siteinfo):
                pass

        # A real FsOutput object, initialised by its own __init__ in a scratch place (outside the watched
        # directory) and then pointed at the watched one: whatever path-valued attributes it keeps follow.
        # (Only its image path logic is used here; its databases and revision file are closed again.)
        scratch_out = os.path.join(tracer.tmpdir or os.path.dirname(self.out), "fsoutput-scratch")
        out_obj = Out(scratch_out)
        for name_ in ("authors", "html", "imageinfo"):
            db = getattr(out_obj, name_, None)
            try:
                if db is not None:
                    db.close()
            except Exception:  # noqa: BLE001
                pass
        try:
            out_obj.revfile.close()
        except Exception:  # noqa: BLE001
            pass
        for k_, v_ in list(vars(out_obj).items()):
            if isinstance(v_, str) and (v_ == scratch_out or v_.startswith(scratch_out + os.sep)):
                setattr(out_obj, k_, self.out + v_[len(scratch_out):])
        os.makedirs(os.path.join(self.out, "images"), exist_ok=True)
        f = fetch.Fetcher(Api(), out_obj, pages=[], licenses=[])
        # virtual time: gevent's own timers (sleep, Timeout, wait(timeout)) fire when the
        # discrete-event clock below reaches them; nothing waits for the real clock
        import heapq
        from . import vtimer

        class Clock:
            now = 0.0
            seq = 0
            heap = []

            def schedule_timer(self, after, fire):
                self.seq += 1
                heapq.heappush(self.heap, (self.now + after, self.seq, fire))

            def count_timer_fired(self):
                pass

        clock = Clock()
        vtimer.install(clock)

        def work():
            for u, title in p["downloads"]:
                f._download_image(p["urls"][u], title)
            f.pool.join()

        g = gevent.spawn(work)
        while True:
            gevent.idle()
            if g.dead or not clock.heap:
                break
            t, _, fire = heapq.heappop(clock.heap)
            clock.now = max(clock.now, t)
            fire()
        if not g.dead:
            raise RuntimeError("downloads neither finished nor wait for anything (deadlock)")

    # -- render ----------------------------------------------------------------------
    def prepare_render(self):
        ext = "pdf"
        self.published["document"] = os.path.join(self.out, "book." + ext)
        self.prev["document"] = _blob(self.crng, self.p["prev_size"]) if self.p["prev"] else None
        self.doc_chunks = [_blob(self.crng, n) for n in self.p["chunks"]]
        body = b"".join(self.doc_chunks)
        if self.p["seek_back"]:
            hdr = b"%PDF-PATCHED-HEADER%"
            body = hdr + body[len(hdr):] if len(body) >= len(hdr) else hdr
        self.new["document"] = body
        if self.p["status_file"]:
            self.published["status"] = os.path.join(self.out, "render-status.json")
            self.prev["status"] = json.dumps({"status": "previous"}).encode() if self.p["prev"] else None

    def produce_render(self, tracer):
        from mwlib.apps import render
        from mwlib.utils.status import Status
        Status.stdout = None
        p, chunks = self.p, self.doc_chunks

        def writer(env, output, status_callback, **kw):
            status_callback(status="rendering", progress=5)
            with open(output, "wb") as f:
                for c, fl in zip(chunks, p["flush_after"]):
                    f.write(c)
                    if fl:
                        f.flush()
                if p["writer_fails"]:
                    raise RuntimeError("writer failed (scripted)")
                if p["seek_back"]:
                    f.seek(0)
                    f.write(b"%PDF-PATCHED-HEADER%")
            status_callback(status="rendering", progress=95)

        writer.content_type = "application/pdf"
        writer.file_extension = "pdf"
        writer.options = {}
        render.load_writer = lambda name: writer
        render.init_tmp_cleaner = lambda: None

        class Wiki:
            siteinfo = {"general": {"lang": "en"}}

        class Env:
            wiki = Wiki
            images = None
            metabook = None

        status_file = self.published.get("status")
        render.get_environment = lambda options: (Env, Status(status_file, progress_range=(0, 100)), None)
        from mwlib.core import _locale
        _locale.set_locale_from_lang = lambda lang: None
        kw = dict(output=self.published["document"], posturl=None, getposturl=0, keep_tmpfiles=False,
                  status_file=status_file, config=None, imagesize=1280, metabook=None, collectionpage=None,
                  noimages=False, logfile=None, username=None, password=None, domain=None, title=None, subtitle=None,
                  editor=None, script_extension=".php", writer="stub", writer_options=None, list_writers=False,
                  writer_info=None, keep_zip=None, language=None, args=())
        render.main.callback(**kw)

    # -- render with the real writers (thorough tier) ------------------------------------
    def prepare_render_real(self):
        """A small collection zip is produced by a complete simulated fetch (vsim.fetchworld)
        in a forked child, then the real mw-render main renders it with the real writer."""
        ext = {"rl": "pdf", "odf": "odt"}[self.p["writer"]]
        self.published["document"] = os.path.join(self.out, "book." + ext)
        self.prev["document"] = _blob(self.crng, self.p["prev_size"]) if self.p["prev"] else None
        self.published["status"] = os.path.join(self.out, "render-status.json")
        self.prev["status"] = json.dumps({"status": "previous"}).encode() if self.p["prev"] else None
        self.zip_path = os.path.join(self.src, "collection.zip")
        os.makedirs(self.src, exist_ok=True)
        pid = os.fork()
        if pid == 0:
            code = 1
            try:
                import logging
                import warnings
                logging.disable(logging.CRITICAL)
                warnings.simplefilter("ignore")
                from mwlib.apps.buildzip import ZipCreator
                from . import fetchworld
                bold = chr(39) * 3
                pages = {}
                mb = []
                for k in range(self.p["articles"]):
                    t = f"Article {k}"
                    text = f"Text of {bold}{t}{bold} with {{{{T0}}}}.\n\n== Section ==\n" + "More text here. " * 40
                    pages[t] = {"revs": [[2000 + k, text]], "users": ["Alice"], "anon": 1}
                    mb.append({"title": t, "rev": None, "chapter": None})
                pages["Template:T0"] = {"revs": [[1999, "templated words"]], "users": [], "anon": 0}
                spec = {"lang": "en", "pages": pages, "images": {}, "metabook": mb}
                res = fetchworld.run_fetch(spec, os.path.join(self.src, "nuwiki"), latencies=[], config={"conf": {}})
                if res["violation"] is None:
                    ZipCreator.create_zip(os.path.join(self.src, "nuwiki"), self.zip_path)
                    code = 0
            finally:
                os._exit(code)
        _, st = os.waitpid(pid, 0)
        if os.waitstatus_to_exitcode(st) != 0 or not os.path.exists(self.zip_path):
            raise HarnessError("could not build the collection zip for the real-writer scenario")
        self.new["document"] = None  # judged structurally, see read_state

    def produce_render_real(self, tracer):
        import warnings
        warnings.simplefilter("ignore")
        from mwlib.apps import render
        from mwlib.utils.status import Status
        Status.stdout = None
        render.init_tmp_cleaner = lambda: None
        kw = dict(output=self.published["document"], posturl=None, getposturl=0, keep_tmpfiles=False,
                  status_file=self.published["status"], config=self.zip_path, imagesize=1280, metabook=None,
                  collectionpage=None, noimages=False, logfile=None, username=None, password=None, domain=None,
                  title=None, subtitle=None, editor=None, script_extension=".php", writer=self.p["writer"],
                  writer_options=None, list_writers=False, writer_info=None, keep_zip=None, language=None, args=())
        render.main.callback(**kw)

    def _read_real_document(self, path, data):
        if self.p["writer"] == "rl":
            try:
                import pypdf
                r = pypdf.PdfReader(path)
                n = len(r.pages)
                for pg in r.pages:
                    pg.extract_text()
                if n < 1:
                    return ("garbage", "PDF without pages")
                return ("new",)
            except Exception as e:  # noqa: BLE001
                return ("garbage", f"PDF does not parse ({type(e).__name__}: {e}); {len(data)} bytes")
        try:
            with zipfile.ZipFile(path) as zf:
                if zf.testzip() is not None:
                    return ("garbage", "ODF zip member fails its CRC")
                import xml.dom.minidom
                xml.dom.minidom.parseString(zf.read("content.xml"))
            return ("new",)
        except Exception as e:  # noqa: BLE001
            return ("garbage", f"ODF document does not open ({type(e).__name__}: {e}); {len(data)} bytes")

    # -- child entry -------------------------------------------------------------------
    def produce(self, tracer):
        import logging
        logging.disable(logging.CRITICAL)
        tracer.sibling = self.sibling
        return getattr(self, "produce_" + self.p["kind"])(tracer)

    def stage(self):
        self.reset_out()
        if self.p["kind"] == "download" and self.p.get("leftover"):
            import random
            left = (self.published["image"] + "\xb7").encode("utf-8")
            with open(left, "wb") as f:
                f.write(_blob(random.Random(self.p["content_seed"] ^ 0x5a5a), self.p["leftover"]))

    # -- readers -------------------------------------------------------------------------
    def read_state(self, label):
        """What a reader opening the published path finds: ('absent',), ('prev',),
        ('new', detail) or ('garbage', why)."""
        path = self.published[label]
        if not os.path.exists(path):
            return ("absent",)
        data = open(path, "rb").read()
        if self.prev.get(label) is not None and data == self.prev[label]:
            return ("prev",)
        if label.startswith("status"):
            try:
                return ("json", json.loads(data.decode("utf-8")))
            except ValueError as e:
                return ("garbage", f"status file does not parse as JSON ({e}); {len(data)} bytes: {data[:60]!r}")
        if label.startswith("zip"):
            try:
                with zipfile.ZipFile(path) as zf:
                    bad = zf.testzip()
                    if bad is not None:
                        return ("garbage", f"zip member {bad} fails its CRC")
                    names = set(zf.namelist())
                    missing = sorted(set(self.contents) - names)
                    if missing:
                        return ("garbage", f"zip lacks {len(missing)} of the {len(self.contents)} source files, e.g. {missing[0]}")
                    for n in sorted(self.contents):  # extra members (a manifest, ...) are the producer's business
                        if zf.read(n) != self.contents[n]:
                            return ("garbage", f"zip member {n} differs from the source file")
                return ("new",)
            except (zipfile.BadZipFile, OSError, EOFError, ValueError) as e:
                return ("garbage", f"not a readable zip ({type(e).__name__}: {e}); {len(data)} bytes")
        if self.p["kind"] == "render_real" and label == "document":
            return self._read_real_document(path, data)
        if data == self.new[label]:
            return ("new",)
        return ("garbage", f"{label} has {len(data)} bytes, complete version has {len(self.new[label])}"
                + (f", previous version {len(self.prev[label])}" if self.prev.get(label) is not None else ""))

    def check(self, fault, ref):
        """Returns None or (class, message)."""
        completed = fault.kind == "none"
        for label in self.published:
            st = self.read_state(label)
            where = f"{self.p['kind']}:{label} after {fault.kind}@{fault.at}" + (
                f" (op {ref['trace'][fault.at]})" if ref and 0 <= fault.at < len(ref["trace"]) else "")
            if st[0] == "garbage":
                return ("A-partial", f"{where}: {st[1]}")
            if label == "status" and self.p["kind"] == "status":
                versions = [json.loads(v) for v in ref["info"]["versions"]]
                i = len(versions) - 1
                # after a kill nothing later than the interrupted update can be there; after an I/O error the
                # producer may well have carried on (a status is best effort) and published later updates
                if not completed and fault.kind in ("crash", "sigterm"):
                    i = 0
                    for at, lab in ref["marks"]:
                        if at <= fault.at:
                            i = lab[1]
                # any complete status of the sequence so far is a legitimate "previous or new
                # version" (a producer may throttle or skip dumps); garbage or a status that was
                # never written is not
                if st[0] == "json":
                    if fault.kind == "sibling" and st[1] == self.SIBLING_STATUS:
                        continue  # the other producer of the same file was the last to publish
                    if st[1] not in versions[: i + 1]:
                        return ("A-stale", f"{where}: status file holds a status that was never written up to update {i}")
                elif st[0] == "absent" and self.prev.get(label) is not None:
                    return ("A-vanished", f"{where}: status file vanished")
                continue
            if st[0] == "json":
                continue  # status files of the other producers: any complete JSON is fine
            if st[0] == "absent" and self.prev.get(label) is not None:
                return ("A-vanished", f"{where}: the previous version is gone and no new one is there")
            if completed and ref is not None and not ref["info"].get("raised") and st[0] != "new" and label != "status" \
                    and label not in self.may_fail and not label.endswith("_sib"):
                return ("A-final", f"{where}: producer finished but the published file is {st[0]}")
        return None


def applicable_kinds(op, p=None):
    name = op[0]
    kinds = ["crash", "enospc"]
    if p is not None and p.get("pair"):
        kinds.append("sibling")
    if p is not None and p["kind"] in ("render", "render_real", "mwzip_main"):
        kinds.append("sigterm")  # the commands' main functions: they may have installed a handler
    if name in ("write", "os.write", "sendfile", "copy_file_range"):
        kinds.append("eio_short")
    if name in ("write", "os.write"):
        kinds.append("disk_full")
        kinds.append("disk_full_transient")
    if name in ("close", "os.close", "rename", "replace"):
        kinds.append("eio_after")
    return kinds


def run_point(sc, fault):
    sc.stage()
    tmp = os.path.join(sc.root, "tmp")
    shutil.rmtree(tmp, ignore_errors=True)
    os.makedirs(tmp)
    code, rep = fsfault.fork_run(sc.produce, sc.out, fault, sc.p["bufsizes"], sc.p["name_seed"],
                                 exdev=bool(sc.p.get("exdev")), tmpdir=tmp)
    return code, rep


def explore_scenario(p, root, stats, only=None):
    """Reference run + every (kind, k).  Returns a violation record or None."""
    sc = Scenario(p, root)
    code, ref = run_point(sc, Fault())
    if ref is None or code != 0 or ref["info"].get("harness_error"):
        raise HarnessError(f"reference run of scenario {p['index']} ({p['kind']}) failed: exit {code} {ref and ref['info']}")
    expected_raise = (p["kind"] == "download" and p["mode"] in ("read-error", "429-forever")) or \
                     (p["kind"] == "render" and p["writer_fails"])
    if ref["info"].get("raised") and not expected_raise:
        # Nothing was injected and the producer failed all the same.  That is a defect of the producer,
        # but not one C20 speaks about (nothing half-written is visible when nothing is published):
        # what the reader finds is judged, the scenario's fault points are skipped.  (If every scenario
        # ends like this the check has no evaluations and exits 2: no verdict.)
        Stats.merge(stats["probes"], {f"producer-failed-without-fault:{p['kind']}": 1})
        bad = None
        for label in sc.published:  # judged like a failed run: absent / previous / complete only
            st_ = sc.read_state(label)
            if st_[0] == "garbage":
                bad = ("A-partial", f"{p['kind']}:{label} after a producer failure without any fault "
                       f"({ref['info']['raised'][:120]}): {st_[1]}")
                break
        if bad:
            stats["scenarios"] += 1
            stats["points"] += 1
            return {"fault": ["none", -1], "violation": bad, "ref": ref}
        return None
    if expected_raise and not ref["info"].get("raised"):
        # a transfer scripted to fail did not make the producer fail: what it published instead is judged below
        Stats.merge(stats["probes"], {f"producer-survived-a-scripted-failure:{p['kind']}": 1})
        sc.may_fail.update(sc.published)
    stats["scenarios"] += 1
    digest_dump(p["index"], stable_hash([ref["trace"], ref["marks"]]))
    Stats.merge(stats["scenario_kinds"], {p["kind"]: 1})
    Stats.merge(stats["configs"], {"output-dir-is-own-filesystem" if p.get("exdev") else "single-filesystem": 1})
    stats["ops_total"] += ref["n"]
    stats["max_ops"] = max(stats["max_ops"], ref["n"])
    for op in ref["trace"]:
        Stats.merge(stats["op_kinds"], {op[0]: 1})
    bad = sc.check(Fault(), ref)
    stats["points"] += 1
    if bad:
        return {"fault": ["none", -1], "violation": bad, "ref": ref}
    for k in range(ref["n"]):
        for kind in applicable_kinds(ref["trace"][k], p):
            if only and [kind, k] != only:
                continue
            f = Fault(kind, k)
            code, rep = run_point(sc, f)
            stats["points"] += 1
            if kind == "sigterm" and code in (143, -15) and (rep is None or not rep["info"].get("raised")):
                Stats.merge(stats["faults"], {"sigterm": 1})  # default action: the process is simply gone
            elif kind == "sigterm" and rep is not None and rep.get("fired"):
                Stats.merge(stats["faults"], {"sigterm-handled-by-the-producer": 1})
            elif kind == "crash":
                if code in (137, -9):
                    Stats.merge(stats["faults"], {"crash": 1})
                elif rep is not None and rep.get("fired"):
                    # the killed process was a child the producer had forked; the producer went on
                    Stats.merge(stats["faults"], {"crash-of-forked-helper": 1})
                else:
                    raise HarnessError(f"scenario {p['index']}: crash@{k} child exited {code} and the fault did not fire "
                                       f"(non-deterministic trace?)")
            else:
                if rep is None or not rep.get("fired"):
                    raise HarnessError(f"scenario {p['index']}: {kind}@{k} did not fire (exit {code})")
                if rep["trace"][:k] != ref["trace"][:k]:
                    raise HarnessError(f"scenario {p['index']}: trace prefix differs under {kind}@{k}")
                Stats.merge(stats["faults"], {kind: 1})
                if rep["info"].get("raised"):
                    Stats.merge(stats["probes"], {"producer-raised-after-fault": 1})
                else:
                    Stats.merge(stats["probes"], {"producer-survived-fault": 1})
            if len(stats["distinct"]) < Stats.SET_CAP:
                stats["distinct"].add(stable_hash([p["index"], p["kind"], kind, k]))
            bad = sc.check(f, ref)
            if bad:
                return {"fault": [kind, k], "violation": bad, "ref": ref}
            # probes: what state did the reader find?
            for label in sc.published:
                Stats.merge(stats["reader_states"], {f"{label}:{sc.read_state(label)[0]}": 1})
    return None


def new_stats():
    return {"scenarios": 0, "points": 0, "ops_total": 0, "max_ops": 0, "scenario_kinds": {}, "op_kinds": {},
            "faults": {}, "probes": {}, "reader_states": {}, "distinct": set(), "configs": {}}


def preimport():
    """Import the producers once in the parent so that forked children do not pay for it."""
    import httpx  # noqa: F401
    import mwlib.apps.buildzip  # noqa: F401
    import mwlib.apps.render  # noqa: F401
    import mwlib.network.fetch  # noqa: F401
    import mwlib.utils.status  # noqa: F401


def worker(seed, widx, nworkers, plan, scratch):
    preimport()
    t_end = time.monotonic() + plan["budget_s"]
    per_worker = (plan["max_runs"] + nworkers - 1) // nworkers
    known = load_known()
    st = new_stats()
    samples, known_hits, violation = [], [], None
    i = widx
    n = 0
    while n < per_worker and time.monotonic() < t_end and violation is None:
        p = draw_scenario(seed, i, real_writers=bool(plan.get("real_writers")))
        root = os.path.join(scratch, f"s{i}")
        os.makedirs(root)
        try:
            bad = explore_scenario(p, root, st)
        finally:
            shutil.rmtree(root, ignore_errors=True)
        n += 1
        if len(samples) < 1:
            samples.append({"scenario": {k: v for k, v in p.items() if k not in ("tree", "prev_tree")},
                            "note": "every (fault kind, op index) of this scenario's reference trace was executed"})
        if bad:
            v = {"class": bad["violation"][0], "message": bad["violation"][1], "step_index": bad["fault"][1]}
            rec = {"property": PROP, "seed": seed, "run_index": i, "pythonhashseed": 0, "scenario": p,
                   "fault": bad["fault"], "violation": v, "digest": stable_hash(bad["ref"]["trace"]),
                   "trace": bad["ref"]["trace"], "marks": bad["ref"]["marks"]}
            k = match_known(PROP, v, known)
            if k is not None:
                known_hits.append({"id": k["id"], "what": k["what"], "run_index": i})
            else:
                violation = rec
        i += nworkers
    return {"stats": st, "samples": samples, "known_hits": known_hits, "violation": violation}


RULE = ("scenarios are drawn by seed (producer kind round-robin over status / create_zip / make_zip / ZipBuilder.build / "
        "download_to_file / render.main; sizes, chunking, buffer size per opened file from {1,64,4096,8192,1MiB}, previous "
        "version present or absent, scripted producer failures).  For each scenario the reference trace of state-changing "
        "system calls is recorded and EVERY (position k, fault kind) is executed in a fresh forked child: crash "
        "(os._exit before call k), ENOSPC at call k, EIO with a short write (write calls), EIO reported after the call "
        "(close/rename).  An evaluation = one (scenario, kind, k) execution + reader check; all are distinct; it is "
        "non-trivial when the fault actually fired (child exit 137, or the tracer reports fired).")


def evidence(stats, samples, plan, tier, seed, wall, nviol, known_hits, nworkers):
    pts = stats.get("points", 0)
    cov = {
        "evaluations": pts,
        "distinct_nontrivial": len(stats.get("distinct", ())),
        "rule": RULE,
        "samples": samples[:3],
        "exhaustive": True,
        "exhaustive_scope": "positions x fault kinds of every explored scenario's system-call trace; scenarios are sampled",
        "scenarios": stats.get("scenarios", 0),
        "scenario_kinds": stats.get("scenario_kinds", {}),
        "configurations": stats.get("configs", {}),
        "syscall_positions_total": stats.get("ops_total", 0),
        "max_positions_in_one_scenario": stats.get("max_ops", 0),
        "op_kinds_in_reference_traces": dict(sorted(stats.get("op_kinds", {}).items())),
        "fault_counts": dict(sorted(stats.get("faults", {}).items())),
        "probes": dict(sorted(stats.get("probes", {}).items())),
        "reader_states_after_faults": dict(sorted(stats.get("reader_states", {}).items())),
        "points_per_hour": int(pts / wall * 3600) if wall > 0 else 0,
        "components": {
            "real": ["mwlib.utils.status.Status.__call__/dump/get_sub_range", "mwlib.apps.buildzip.ZipCreator.create_zip/_write_zip",
                     "mwlib.apps.buildzip.make_zip, zip_dir, TempDirManager", "mwlib.apps.buildzip.ZipBuilder.build/_build_zip",
                     "mwlib.apps.utils.create_zip_from_wiki_env", "mwlib.network.fetch.download_to_file",
                     "mwlib.network.transport.download_with_retries/stream_download_to_temp",
                     "mwlib.apps.render.main (callback), finish_render, write_traceback", "mwlib.utils.unorganized.safe_unlink",
                     "Python's BufferedWriter/BufferedRandom/TextIOWrapper, zipfile, tempfile, shutil (real, over a traced raw layer)",
                     "the kernel's file system (real files in a scratch directory)"],
            "stub": ["make_nuwiki (populates the directory with generated files)", "make_wiki_env_from_options / get_environment (dummy env)",
                     "the writer used by render.main (seeded write/flush/seek pattern)", "httpx client (scripted streaming responses)",
                     "render.init_tmp_cleaner, load_writer, rate limiter, sleep",
                     "the second producer of the `sibling` fault (the real Status / ZipCreator code, run from start to end between two calls of the first producer, not interleaved call by call)"],
        },
        "known_findings_hit": sorted({k["id"] for k in known_hits}),
        "workers": nworkers,
    }
    return {"property_id": PROP, "tier": tier, "seed": seed, "level": "fault_enumeration", "coverage": cov,
            "assumptions": ["POSIX rename/replace are atomic on one file system", "process death, not power loss: data that reached the kernel stays",
                            "crash points between two system calls are equivalent to the crash before the later one"],
            "wall_s": round(wall, 2), "violations": nviol}


def replay(v, scratch):
    preimport()
    st = new_stats()
    root = os.path.join(scratch, "replay")
    os.makedirs(root)
    bad = explore_scenario(v["scenario"], root, st, only=v["fault"])
    if not bad:
        return {"violation": None}
    return {"violation": {"class": bad["violation"][0], "message": bad["violation"][1], "step_index": bad["fault"][1]},
            "digest": stable_hash(bad["ref"]["trace"])}
