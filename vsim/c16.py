"""C16 - the job queue neither loses nor duplicates a job, under any interleaving."""
from . import qscommon

PROP = "C16"
PLAN = {"quick": {"budget_s": 40, "max_runs": 400000}, "thorough": {"budget_s": 600, "max_runs": 40000000}}
RULE = ("each evaluation is one seeded history of the real queue server on fake sockets: swarm-configured, "
        "state-aware steps (70% bounded: <=10 ops, 2 channels, <=4 job ids, <=3 workers; 30% soak: 12-60 ops), "
        "followed by final probes and a drain.  Oracles: I-loc (every unfinished accepted job in exactly one place "
        "at every quiescent point), I-dup (never delivered while held / more often than 1+requeues), I-lostwake, "
        "I-drain.  A history is non-trivial when at least one fault kind actually fired in it (disconnect, "
        "multi-event quantum, timer, clock jump, stalled tick); distinct = distinct executed step lists (hash).")
EXPECTED_PROBES = ["push-while-waiter-blocked", "second-push-same-quantum-while-waiter-blocked",
                   "push-while-2+-waiters-blocked", "disconnect-while-blocked-in-pull", "disconnect-while-holding",
                   "kill-in-flight", "timeout-while-held", "requeue-while-waiter-blocked", "delivery-by-hand-off"]


def worker(seed, widx, nworkers, plan, scratch):
    return qscommon.qs_worker(PROP, seed, widx, nworkers, plan, scratch, allow_restart=True)


def evidence(stats, samples, plan, tier, seed, wall, nviol, known_hits, nworkers):
    return qscommon.qs_evidence(PROP, "exploration", stats, samples, plan, tier, seed, wall, nviol, known_hits,
                                nworkers, RULE, {"expected_probes": EXPECTED_PROBES})


def replay(v, scratch):
    return qscommon.qs_replay(v, scratch)
