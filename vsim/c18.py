"""C18 - saving and restoring the queue preserves every job.

For every sampled (restart-free, violation-free) history H and EVERY position i in
[0, |H|]: run H[:i], graceful save + stop + load (real pickle file, real loaddb),
reconnect, run H[i:], then one of two epilogues.  The only difference from the clean run
is the restart, so any violation is C18's."""

import time

from . import qscommon, qsrun
from .kernel import HarnessError, Violation, rng_for, stable_hash
from .runner import Stats, digest_dump, load_known, match_known

PROP = "C18"
PLAN = {"quick": {"budget_s": 45, "max_runs": 300000}, "thorough": {"budget_s": 600, "max_runs": 3000000}}
RULE = ("a history is sampled by seed (70% bounded <=10 ops, 30% soak <=40 ops; C16/C17 alphabet), run once without "
        "restart (must be clean), then re-run once per position i in [0,|H|] with save/stop/load inserted at i "
        "(exhaustive over positions per history; 20% of the histories additionally with a second restart at every "
        "later position j for a sampled i).  Epilogue A: qinfo of every job, getstats, drain in (priority, serial) "
        "order.  Epilogue B: id-less qadd (fresh id), qwait on every finished job (must answer in the quantum), clock "
        "past every deadline + one tick, qinfo of every job (unfinished ones must now be 'timeout').  An evaluation is "
        "non-trivial when the queue held at least one job at the restart; distinct = (history hash, position, epilogue).")


class RestartRun(qsrun.QsRun):
    """QsRun whose epilogue can be the timeout/wait/id variant (B)."""

    variant = "A"

    def epilogue(self, probe=True, drain=True):
        if self.variant == "A":
            return qsrun.QsRun.epilogue(self)
        sim, model = self.sim, self.model
        self._quiesce()
        sim.connect("probe")
        sim.quiesce()
        # P-ids: a new id-less job gets an id never used before
        sim.send("probe", "qadd", {"channel": "a", "timeout": 7, "ttl": 3600})
        self._quiesce()
        # P-wait: waiting on restored finished jobs is answered in the quantum it is issued
        done = sorted([j.jobid for j in model.jobs.values() if j.state == "d"], key=str)
        if done:
            sim.send("probe", "qwait", {"jobids": done})
            self._quiesce()
            if not sim.can_send("probe"):
                raise Violation("R-wait", f"qwait on restored finished jobs {done} not answered at once")
        # P-timeout: every unfinished job is still subject to its original deadline
        undone = [j for j in model.jobs.values() if j.state != "d"]
        if undone:
            horizon = max(j.deadline for j in undone) - sim.clock.time()
            if horizon > 0:
                sim.jump(horizon + 0.5)
                model.note_jump(horizon + 0.5)
            sim.advance(1.5)
            self._end_quantum()
            self._raise_pending()
            model.at_quiescence()
        for jid in sorted(model.jobs, key=str):
            sim.send("probe", "qinfo", {"jobid": jid})
            sim.quiesce()
            self._raise_pending()
            if not sim.can_send("probe"):
                raise Violation("R-error", f"qinfo({jid!r}) got no answer")
        model.at_quiescence()


def _run(scratch, steps, choices, variant):
    class R(RestartRun):
        pass
    R.variant = variant
    return qsrun.run_script(scratch, steps, choices, run_cls=R)


DOWNTIMES = [0, 0, 0, 7, 200, 4000, 0, 100000]  # seconds without a server (the last one: more than a day)


def with_restarts(steps, positions, salt=0):
    """Insert the stop / down time / start step at the given positions.  The down time is a
    function of (salt, position) so that every history sees all of them over its positions."""
    out = list(steps)
    for p in sorted(positions, reverse=True):
        dt = DOWNTIMES[(p + salt) % len(DOWNTIMES)]
        if (p + 2 * salt) % 7 == 3:
            # the first start attempt dies (port still taken) after the state was loaded
            out.insert(p, ["restart", dt, 1])
        else:
            out.insert(p, ["restart", dt] if dt else ["restart"])
    return out


def worker(seed, widx, nworkers, plan, scratch):
    t_end = time.monotonic() + plan["budget_s"]
    per_worker = (plan["max_runs"] + nworkers - 1) // nworkers
    known = load_known()
    st = {"histories": 0, "histories_skipped_foreign": 0, "runs": 0, "nontrivial": set(), "events": 0,
          "sim_seconds": 0.0, "faults": {}, "probes": {}, "states": set(), "max_positions_per_history": 0,
          "double_restart_runs": 0, "jobs_at_restart": {}, "determinism_rechecks": 0}
    samples, known_hits, violation = [], [], None
    i = widx
    n = 0
    while n < per_worker and time.monotonic() < t_end and violation is None:
        rng, cfg = qscommon.draw_run(seed, PROP, i, allow_restart=False)
        if cfg["mode"] == "soak":
            cfg["n_ops"] = min(cfg["n_ops"], 40)
        base = qsrun.run_generated(scratch, rng, cfg)
        if base["violation"] is not None:
            bv = base["violation"]
            if bv["class"].startswith("X-"):
                # the server does not serve (or spins) already without any restart: nothing about
                # restarts can be decided on this tree, and that is a failure, not a pass
                violation = {"property": PROP, "seed": seed, "run_index": i, "pythonhashseed": 0, "config": dict(cfg),
                             "epilogue": "A", "restart_positions": [], "steps": base["steps"], "choices": base["choices"],
                             "violation": bv, "digest": base["digest"], "original_steps": base["steps"]}
                st["runs"] += 1
                break
            st["histories_skipped_foreign"] += 1
            i += nworkers
            continue
        st["histories"] += 1
        H, ch = base["steps"], base["choices"]
        hh = stable_hash(H)
        st["max_positions_per_history"] = max(st["max_positions_per_history"], len(H) + 1)
        plans = [([p], "AB"[(p + i) % 2]) for p in range(len(H) + 1)]
        r2 = rng_for(seed, PROP, i, "second")
        if r2.random() < 0.2 and len(H) >= 2:
            p = r2.randrange(len(H))
            plans += [([p, q], "AB"[(q + i) % 2]) for q in range(p + 1, len(H) + 1)]
        # two restarts around every operation that changes a job without changing any counter
        # (progress info, drop marks): "nothing happened since the last save" must not be concluded
        for k, st_ in enumerate(H):
            if st_[0] == "send" and st_[2] in ("qsetinfo", "qdrop"):
                plans.append(([k, k + 1], "AB"[(k + i) % 2]))
        seen_plans = set()
        for positions, variant in plans:
            if (tuple(positions), variant) in seen_plans:
                continue
            seen_plans.add((tuple(positions), variant))
            steps = with_restarts(H, positions, salt=i)
            res = _run(scratch, steps, ch, variant)
            n += 1
            digest_dump(f"{i}@{positions}{variant}", res["digest"])
            st["runs"] += 1
            st["events"] += res["events"]
            st["sim_seconds"] += res["sim_seconds"]
            Stats.merge(st["faults"], res["faults"])
            Stats.merge(st["probes"], res["probes"])
            if len(positions) > 1:
                st["double_restart_runs"] += 1
            if len(st["states"]) < Stats.SET_CAP:
                st["states"] |= {h.hex() for h in res["states"]}
            pr = res["probes"]
            if pr.get("restart") and (pr.get("restart-while-held") or pr.get("re-add-existing") or pr.get("pull-blocks")
                                      or pr.get("stats-checked") or res["events"] > 12):
                if len(st["nontrivial"]) < Stats.SET_CAP:
                    st["nontrivial"].add(stable_hash([hh, positions, variant]))
            if n % 200 == 1:
                res_b = _run(scratch, steps, ch, variant)
                st["determinism_rechecks"] += 1
                if res_b["digest"] != res["digest"]:
                    raise HarnessError(f"non-deterministic C18 run {i}@{positions}")
            if len(samples) < 2 and len(H) <= 14 and positions[0] >= 5:
                samples.append({"run_index": i, "restart_positions": positions, "epilogue": variant, "steps": steps})
            v = res["violation"]
            if v is not None:
                cls = v["class"]

                def fails(cand, cls=cls, variant=variant):
                    if not any(s[0] == "restart" for s in cand):
                        return False
                    r = _run(scratch, cand, ch, variant)
                    if not (r["violation"] and r["violation"]["class"] == cls):
                        return False
                    # must be caused by the restart: the same script without it is clean
                    r0 = _run(scratch, [s for s in cand if s[0] != "restart"], ch, variant)
                    return r0["violation"] is None

                from .kernel import ddmin
                small = ddmin(steps, fails, budget=250) if fails(steps) else steps
                rr = _run(scratch, small, ch, variant)
                if rr["violation"] is None:
                    raise HarnessError(f"C18 violation of run {i}@{positions} does not replay: {v}")
                rec = {"property": PROP, "seed": seed, "run_index": i, "pythonhashseed": 0, "config": dict(cfg),
                       "epilogue": variant, "restart_positions": positions, "steps": small, "choices": rr["choices"],
                       "violation": rr["violation"], "digest": rr["digest"], "original_steps": steps}
                k = match_known(PROP, rr["violation"], known)
                if k is not None:
                    known_hits.append({"id": k["id"], "what": k["what"], "run_index": i})
                else:
                    violation = rec
                    break
        i += nworkers
    return {"stats": st, "samples": samples, "known_hits": known_hits, "violation": violation}


def evidence(stats, samples, plan, tier, seed, wall, nviol, known_hits, nworkers):
    runs = stats.get("runs", 0)
    cov = {
        "evaluations": runs,
        "distinct_nontrivial": len(stats.get("nontrivial", ())),
        "rule": RULE,
        "samples": samples[:4],
        "exhaustive": True,
        "exhaustive_scope": "restart position within each sampled history (every i in [0,|H|]); histories are sampled",
        "histories": stats.get("histories", 0),
        "histories_skipped_because_base_run_not_clean": stats.get("histories_skipped_foreign", 0),
        "max_positions_in_one_history": stats.get("max_positions_per_history", 0),
        "double_restart_runs": stats.get("double_restart_runs", 0),
        "runs_per_hour": int(runs / wall * 3600) if wall > 0 else 0,
        "simulated_seconds_total": round(stats.get("sim_seconds", 0.0), 1),
        "events_executed": stats.get("events", 0),
        "fault_counts": dict(sorted(stats.get("faults", {}).items())),
        "probes": dict(sorted(stats.get("probes", {}).items())),
        "distinct_abstract_states": len(stats.get("states", ())),
        "determinism_rechecks": stats.get("determinism_rechecks", 0),
        "components": dict(qscommon.COMPONENTS, real=qscommon.COMPONENTS["real"] + [
            "pickle file written by Main.savedb and read by Main.loaddb (workq/job __getstate__/__setstate__)"]),
        "known_findings_hit": sorted({k["id"] for k in known_hits}),
        "workers": nworkers,
    }
    return {"property_id": PROP, "tier": tier, "seed": seed, "level": "fault_enumeration", "coverage": cov,
            "assumptions": ["the restart is the graceful save the property states (savedb in the finally of the server loop)",
                            "a stopped server takes all client connections with it; clients reconnect",
                            "same trusted base as C16/C17 (real gevent, fake sockets)"],
            "wall_s": round(wall, 2), "violations": nviol}


def replay(v, scratch):
    return _run(scratch, v["steps"], v["choices"], v.get("epilogue", "A"))
