import sys
import traceback

try:
    from vsim.runner import main
    rc = main()
except SystemExit:
    raise
except BaseException:  # noqa: BLE001 - a crash of the harness is never a verdict
    traceback.print_exc()
    print("HARNESS-ERROR: the check itself crashed (exit 2); no verdict", file=sys.stderr)
    rc = 2
sys.exit(rc)
