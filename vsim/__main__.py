import sys

from vsim.runner import main

sys.exit(main())
