"""Worker loop, evidence and replay shared by the qs-world checks (C16, C17)."""

import time

from . import qsrun
from .kernel import HarnessError, rng_for, stable_hash
from .qsmodel import CLASS2PROP
from .runner import Stats, digest_dump, load_known, match_known

COMPONENTS = {
    "real": ["qs.qserve.Main.__init__/loaddb/savedb/run (Handler class, timer loops report/watchdog/handletimeouts, finally: savedb)",
             "qs.rpcserver.Server.handle_client (per-connection loop, reader greenlet, kill links, JSON framing, teardown)",
             "qs.rpcserver.Dispatcher/RequestHandler", "qs.qserve.QPlugin (all rpc_* and shutdown)", "qs.jobs.workq and job",
             "qs.misc.CallInLoop", "gevent.backdoor.BackdoorServer on an ephemeral loopback port (only in runs with the QSERVE_BACKDOOR knob)", "gevent hub, Event, AsyncResult, Queue, Greenlet.kill, Pool (timers virtualised through a loop proxy)"],
    "stub": ["TCP sockets (FakeSock: text or binary makefile buffered until flush, sendall/recv, EOF, reset with EPIPE on write/close, pipelining, a failing bind for a start attempt)",
             "rpcserver.Server.__init__ and run_forever (they bind and serve a TCP socket)",
             "time.time / time.monotonic in qs.jobs (SimClock)", "random in qs.jobs (ScriptedRandom; optional)",
             "gevent timers (virtual, vsim/vtimer.py)", "worker and client processes (simulated clients issuing the RPCs)"],
}


def draw_run(seed, prop, i, allow_restart=False):
    rng = rng_for(seed, prop, i)
    r = rng.random()
    mode = "bounded" if r < 0.7 else "soak"
    faults = rng.random() >= 0.15
    cfg = qsrun.draw_config(rng, mode, allow_restart=allow_restart, faults=faults)
    return rng, cfg


def is_nontrivial(res):
    f = res["faults"]
    return bool(f) and any(v for v in f.values())


def qs_worker(prop, seed, widx, nworkers, plan, scratch, allow_restart=False, run_cls=qsrun.QsRun):
    t_end = time.monotonic() + plan["budget_s"]
    per_worker = (plan["max_runs"] + nworkers - 1) // nworkers
    known = load_known()
    st = {"runs": 0, "nontrivial_runs": 0, "events": 0, "quanta": 0, "multi_event_quanta": 0,
          "sim_seconds": 0.0, "faults": {}, "probes": {}, "foreign": {}, "scripts": set(),
          "states": set(), "interleavings": set(), "determinism_rechecks": 0, "modes": {},
          "max_alternatives": 0, "max_steps": 0, "hub_errors": {}, "state_growth": {}}
    samples = []
    known_hits = []
    violation = None
    i = widx
    n = 0
    while n < per_worker and time.monotonic() < t_end:
        rng, cfg = draw_run(seed, prop, i, allow_restart)
        res = qsrun.run_generated(scratch, rng, cfg, run_cls=run_cls, own=prop)
        n += 1
        digest_dump(i, res["digest"])
        st["runs"] += 1
        st["events"] += res["events"]
        st["quanta"] += res["quanta"]
        st["multi_event_quanta"] += res["multi_event_quanta"]
        st["sim_seconds"] += res["sim_seconds"]
        st["max_alternatives"] = max(st["max_alternatives"], res["max_alternatives"])
        st["max_steps"] = max(st["max_steps"], len(res["steps"]))
        Stats.merge(st["faults"], res["faults"])
        Stats.merge(st["probes"], res["probes"])
        Stats.merge(st["modes"], {cfg["mode"] + ("" if cfg["faults"] else "-faultfree"): 1})
        for he in res["hub_errors"]:
            Stats.merge(st["hub_errors"], {he[0]: 1})
        if res.get("foreign_seen"):
            Stats.merge(st["foreign"], res["foreign_seen"])
        if len(st["states"]) < Stats.SET_CAP:
            st["states"] |= {h.hex() for h in res["states"]}
        if len(st["interleavings"]) < Stats.SET_CAP:
            st["interleavings"] |= res["interleavings"]
        if n % 500 == 0 and n <= 30000:
            st["state_growth"][str(n)] = len(st["states"])
        if is_nontrivial(res):
            st["nontrivial_runs"] += 1
            if len(st["scripts"]) < Stats.SET_CAP:
                st["scripts"].add(stable_hash(res["steps"]))
        if len(samples) < 2 and is_nontrivial(res) and 6 <= len(res["steps"]) <= 16:
            samples.append({"run_index": i, "steps": res["steps"], "choices": res["choices"],
                            "faults": res["faults"]})
        if n % 100 == 1:  # built-in determinism probe
            rng2, cfg2 = draw_run(seed, prop, i, allow_restart)
            res2 = qsrun.run_generated(scratch, rng2, cfg2, run_cls=run_cls, own=prop)
            st["determinism_rechecks"] += 1
            if res2["digest"] != res["digest"]:
                raise HarnessError(f"non-deterministic run {i}: digest {res['digest']} vs {res2['digest']}")
            res3 = qsrun.run_script(scratch, res["steps"], res["choices"], run_cls=run_cls, own=prop)
            if res3["digest"] != res["digest"]:
                raise HarnessError(f"replay of run {i} diverges: digest {res['digest']} vs {res3['digest']}")
        # "with every choice among eligible blocked workers": when the run contained real
        # choices (>= 2 alternatives), re-run the same script under every other choice vector
        alts = res["choice_alternatives"]
        if res["violation"] is None and any(a >= 2 for a in alts) and plan.get("enumerate_choices", True):
            import itertools
            space = list(itertools.product(*[range(a) for a in alts[:6]]))
            if 1 < len(space) <= plan.get("max_choice_vectors", 24):
                for vec in space:
                    vec = list(vec)
                    if vec == res["choices"][:len(vec)]:
                        continue
                    alt = qsrun.run_script(scratch, res["steps"], vec, run_cls=run_cls, own=prop)
                    st["choice_vector_reruns"] = st.get("choice_vector_reruns", 0) + 1
                    if alt["violation"] is not None:
                        res = alt
                        st["violations_found_by_choice_enumeration"] = st.get("violations_found_by_choice_enumeration", 0) + 1
                        break
                st["histories_with_all_choice_vectors"] = st.get("histories_with_all_choice_vectors", 0) + 1
        v = res["violation"]
        if v is not None:
            owner = CLASS2PROP.get(v["class"], prop)
            if prop == "C19" and v["class"] == "R-ttl":
                owner = "C19"  # a premature drop makes a finished render read as 'progress' again
            if prop == "C19" and v["class"] == "R-final" and "vanished" in v["message"] and ":render-" in v["message"]:
                # a live render job the queue no longer finds under its id: its status reads
                # "waiting for render process" whatever the job does, and 'progress' after it finished
                owner = "C19"
            if prop == "C16" and v["class"] == "R-final" and v["message"].startswith("unfinished job"):
                # an accepted, unfinished job the server no longer knows at all is as lost as a job can be
                owner = "C16"
            if owner != prop:
                Stats.merge(st["foreign"], {v["class"]: 1})
            else:
                small, choices, r2 = qsrun.minimise(scratch, res["steps"], res["choices"], v["class"], run_cls=run_cls, own=prop)
                if r2 is None or r2["violation"] is None:
                    raise HarnessError(f"violation of run {i} does not replay: {v}")
                rec = {"property": prop, "seed": seed, "run_index": i, "pythonhashseed": 0,
                       "config": dict(cfg), "steps": small, "choices": choices,
                       "violation": r2["violation"], "digest": r2["digest"],
                       "original_steps": res["steps"], "original_choices": res["choices"],
                       "original_violation": v, "gevent": _gevent_version()}
                k = match_known(prop, r2["violation"], known)
                if k is not None:
                    known_hits.append({"id": k["id"], "what": k["what"], "run_index": i})
                else:
                    violation = rec
                    break
        i += nworkers
    return {"stats": st, "samples": samples, "known_hits": known_hits, "violation": violation}


def _gevent_version():
    import gevent
    return gevent.__version__


def qs_evidence(prop, level, stats, samples, plan, tier, seed, wall, nviol, known_hits, nworkers, rule, extra=None):
    runs = stats.get("runs", 0)
    probes = dict(sorted(stats.get("probes", {}).items()))
    cov = {
        "evaluations": runs,
        "distinct_nontrivial": len(stats.get("scripts", ())),
        "rule": rule,
        "samples": samples[:4],
        "runs_per_hour": int(runs / wall * 3600) if wall > 0 else 0,
        "simulated_seconds_total": round(stats.get("sim_seconds", 0.0), 1),
        "events_executed": stats.get("events", 0),
        "quanta": stats.get("quanta", 0),
        "multi_event_quanta": stats.get("multi_event_quanta", 0),
        "fault_counts": dict(sorted(stats.get("faults", {}).items())),
        "probes": probes,
        "probes_at_zero": [p for p in extra.get("expected_probes", []) if not probes.get(p)] if extra else [],
        "distinct_abstract_states": len(stats.get("states", ())),
        "distinct_interleavings": len(stats.get("interleavings", ())),
        "abstract_states_after_n_runs_per_worker_summed_over_workers": dict(
            sorted(stats.get("state_growth", {}).items(), key=lambda kv: int(kv[0]))[:60]),
        "modes": stats.get("modes", {}),
        "determinism_rechecks": stats.get("determinism_rechecks", 0),
        "foreign_violations_ignored": stats.get("foreign", {}),
        "max_alternatives_in_choice": stats.get("max_alternatives", 0),
        "histories_rerun_under_every_choice_vector": stats.get("histories_with_all_choice_vectors", 0),
        "choice_vector_reruns": stats.get("choice_vector_reruns", 0),
        "max_steps": stats.get("max_steps", 0),
        "hub_errors": stats.get("hub_errors", {}),
        "components": COMPONENTS,
        "known_findings_hit": sorted({k["id"] for k in known_hits}),
        "workers": nworkers,
        "exhaustive": False,
    }
    if extra:
        cov.update({k: v for k, v in extra.items() if k != "expected_probes"})
    return {
        "property_id": prop, "tier": tier, "seed": seed, "level": level, "coverage": cov,
        "assumptions": [
            "gevent's hub FIFO order, AsyncResult and Greenlet.kill are the real ones and trusted",
            "whole-line delivery on the fake sockets; real TCP and the kernel are outside the simulator",
            "only gevent-feasible schedules are generated: arrival order and timing are free, wake-up order is gevent's",
        ],
        "wall_s": round(wall, 2), "violations": nviol,
    }


def qs_replay(v, scratch, run_cls=qsrun.QsRun):
    return qsrun.run_script(scratch, v["steps"], v["choices"], run_cls=run_cls, own=v.get("property"))
