"""The "qs world": the real queue server (rpcserver per-connection loop + QPlugin +
workq + CallInLoop timers + Main.loaddb/savedb) on fake sockets under a scheduler the
driver owns.  No real socket, timer, sleep, clock or PRNG is visible to the SUT.

Driver primitives (DESIGN.md 2.1):
  connect / disconnect / send        inject an external event (one hub callback each)
  yield_gen()                        gevent.sleep(0): run the callbacks queued so far
  quiesce()                          gevent.idle(): run until nothing is runnable
  advance(d) / tick(d) / jump(d)     virtual time
  restart()                          graceful save, stop, load (C18)
"""

import heapq
import json
import os

import gevent
import gevent.event
import gevent.pool
import gevent.queue

from qs import jobs, misc, qserve, rpcserver

from . import vtimer
from .kernel import Digest, HarnessError, Violation

T0 = 1_700_000_000.0
# Requests never execute at the very instant a timer loop ticks, and no deadline (request time +
# a timeout that is a multiple of 0.5 s) falls exactly on a tick: whether a job whose deadline
# equals "now" times out at this tick or the next is not fixed by any property, so the
# simulation keeps request phases and tick phases apart instead of modelling the boundary.
PHASE = 0.137


class SimClock:
    """The only clock the queue reads.  mono drives the sleepers; time() = mono + skew."""

    def __init__(self):
        self.mono = 0.0
        self.skew = T0

    def time(self):
        return self.mono + self.skew

    def monotonic(self):
        # same time line as time(): an implementation that measures deadlines on the monotonic
        # clock behaves exactly like one that uses the wall clock (jumps hit both)
        return self.mono + self.skew - T0

    def sleep(self, seconds):
        raise HarnessError("blocking time.sleep() inside the queue server")

    def perf_counter(self):
        return self.monotonic()

    def __getattr__(self, name):
        # (strftime, gmtime, ... : whatever else of the time module a server module may use)
        import time as _t
        return getattr(_t, name)


class ScriptedRandom:
    """Replaces qs.jobs.random: choice() is drawn from the run's PRNG and logged, or
    read back from the log on replay."""

    def __init__(self, rng=None, script=None):
        self.rng = rng
        self.script = list(script) if script is not None else None
        self.pos = 0
        self.log = []
        self.alts = []  # number of alternatives at each choice
        self.max_alternatives = 0

    def choice(self, seq):
        n = len(seq)
        if self.script is not None:
            i = self.script[self.pos] % n if self.pos < len(self.script) else 0
            self.pos += 1
        else:
            i = self.rng.randrange(n)
        self.log.append(i)
        self.alts.append(n)
        if n > self.max_alternatives:
            self.max_alternatives = n
        return seq[i]


_REAL_SERVER = [rpcserver.Server]


class _Namespace:
    def __init__(self, **kw):
        self.__dict__.update(kw)


class _GeventProxy:
    """Stands in for the `gevent` module inside qs.misc so that CallInLoop sleeps on
    the virtual timer heap."""

    def __init__(self, sim):
        self._sim = sim
        self.GreenletExit = gevent.GreenletExit

    def sleep(self, seconds=0):
        self._sim._virtual_sleep(seconds)


class FakeFile:
    """What sock.makefile(...) gives the server: a buffered file (text, or binary when the mode
    says so).  On a connection that was reset by the peer, write() still only fills the buffer,
    flush() fails with EPIPE, and close() - which flushes - fails again while data is pending."""

    def __init__(self, sock, binary=False):
        self.sock = sock
        self.binary = binary
        self.pending = False
        self.closed = False
        self.buf = []  # written, not yet flushed: the client has not got it

    def readline(self, *_a):
        item = self.sock._next_line()
        return item.encode("utf-8") if self.binary else item

    def __iter__(self):
        return self

    def __next__(self):
        line = self.readline()
        if not line:
            raise StopIteration
        return line

    def write(self, data):
        if isinstance(data, (bytes, bytearray)):
            data = bytes(data).decode("utf-8")
        if self.sock.broken:
            # nobody will ever read it; the oracle still learns what the server meant to answer
            self.sock._server_wrote(data)
            self.pending = True
        else:
            self.buf.append(data)
        return len(data)

    def _deliver(self):
        buf, self.buf = self.buf, []
        for data in buf:
            self.sock._server_wrote(data)

    def flush(self):
        if self.sock.broken and (self.pending or self.buf):
            self.pending = True
            raise BrokenPipeError(32, "Broken pipe (connection reset by peer, injected)")
        self._deliver()

    def close(self):
        if self.closed:
            return
        self.closed = True
        if self.sock.broken and (self.pending or self.buf):
            raise BrokenPipeError(32, "Broken pipe (connection reset by peer, injected)")
        self._deliver()

    def __enter__(self):
        return self

    def __exit__(self, *exc):
        self.close()


class FakeSock:
    def __init__(self, sim, name, epoch, script_name=None):
        self.sim = sim
        self.name = name  # unique connection id (script name, "~n" appended on reconnects)
        self.script_name = script_name or name
        self.epoch = epoch  # server incarnation it belongs to
        self.inq = gevent.queue.Queue()
        self.closed = False
        self.broken = False  # reset by the peer: writes fail from now on
        self.server_seen = False  # handle_client has started for this connection
        self.eof_sent = False
        self.outstanding = []  # FIFO of (rpc, args) awaiting their responses (more than one: pipelined)
        self.reply_cb = None
        self.greenlet = None
        self._out = ""  # response bytes not yet forming a whole line
        self._in = b""

    def makefile(self, mode="r", *_a, **_kw):
        self.server_seen = True
        return FakeFile(self, binary="b" in mode)

    # the request side: whole lines as the client sent them, "" at EOF, an exception for a reset
    def _next_line(self):
        item = self.inq.get()
        if isinstance(item, BaseException):
            raise item
        return item

    # the response side: the server's bytes reach the client as whole lines
    def _server_wrote(self, data):
        self._out += data
        while "\n" in self._out:
            line, self._out = self._out.split("\n", 1)
            self.sim._on_response(self, line + "\n")

    # plain socket calls (a server may talk to the socket directly instead of through makefile)
    def sendall(self, data, *_a):
        self.server_seen = True
        self._server_wrote(bytes(data).decode("utf-8") if isinstance(data, (bytes, bytearray, memoryview)) else data)
        if self.broken:
            # (nobody will ever read it; the oracle still learns what the server meant to answer)
            raise BrokenPipeError(32, "Broken pipe (connection reset by peer, injected)")

    def send(self, data, *_a):
        self.sendall(data)
        return len(data)

    def recv(self, bufsize=65536, *_a):
        self.server_seen = True
        if not self._in:
            self._in = self._next_line().encode("utf-8")
            if not self._in:
                return b""
        out, self._in = self._in[:bufsize], self._in[bufsize:]
        return out

    def settimeout(self, *_a):
        pass

    def setsockopt(self, *_a):
        pass

    def getpeername(self):
        return (self.name, 0)

    def shutdown(self, *_a):
        pass

    def close(self):
        self.closed = True


class _stream_server_patched:
    """While a Server object is constructed, every name under which qs.rpcserver (or gevent.server)
    holds the StreamServer class points at the stand-in."""

    def __init__(self, fake):
        self.fake = fake
        self.saved = []

    def __enter__(self):
        import gevent.server as gs
        real = gs.StreamServer
        for mod in (gs, rpcserver, getattr(rpcserver, "gserver", None)):
            if mod is None:
                continue
            for name, val in list(vars(mod).items()):
                if val is real:
                    self.saved.append((mod, name, val))
                    setattr(mod, name, self.fake)

    def __exit__(self, *exc):
        for mod, name, val in self.saved:
            setattr(mod, name, val)
        return False


_LOOPBACK = []


def _loopback_ok():
    if not _LOOPBACK:
        import socket as _s
        try:
            t = _s.socket()
            t.bind(("127.0.0.1", 0))
            t.listen(1)
            t.close()
            _LOOPBACK.append(True)
        except OSError:
            _LOOPBACK.append(False)
    return _LOOPBACK[0]


class Observer:
    """Interface the oracles implement; all callbacks run synchronously inside the SUT's
    own atomic step, so their order is the server's execution order."""

    def on_exec(self, conn, rpc, args, now):
        pass

    def on_resp(self, conn, rpc, args, payload, now):
        pass

    def on_shutdown(self, conn, now):
        pass

    def on_tick(self, kind, now):
        pass

    def on_tick_done(self, kind, now):
        pass

    def on_restart(self, now):
        pass


class QsSim:

    def __init__(self, data_dir, rng=None, choices=None, observer=None):
        self.data_dir = data_dir
        self.clock = SimClock()
        self.random = ScriptedRandom(rng=rng, script=choices)
        self.observer = observer or Observer()
        self.digest = Digest()
        self.seq = 0
        self.epoch = 0
        self.conns = {}  # script name -> its current FakeSock (live or half-closed)
        self.socks = {}  # unique connection id -> FakeSock
        self.generations = {}
        self.sleepers = []  # heap of (due_mono, seq, waiter_event)
        self.timer_greenlets = []
        self.hub_errors = []
        self.stopping = False
        self.violation = None
        self.server = None
        self.counters = {}
        self.backdoor = False  # run the server with QSERVE_BACKDOOR set (see enable_backdoor)
        self._backdoors = []
        self._install()
        try:
            self._start_server()
        except (Exception, SystemExit) as e:  # noqa: BLE001
            # on an empty data directory, with nothing else going on: the server is broken, and
            # no property can be examined on it
            import traceback
            tb = traceback.format_exc()
            self._uninstall()
            raise Violation("X-dead", f"the queue server does not start: {type(e).__name__}: {e}",
                            detail={"traceback": tb[-1200:]})
        self.clock.mono += PHASE

    # ---- seams -----------------------------------------------------------------
    _guard = None

    def _install(self):
        if QsSim._guard is None:
            from .stateguard import StateGuard
            mods = [jobs, misc, qserve, rpcserver]
            try:
                from mwlib.core import nserve
                from qs import rpcclient
                mods += [nserve, rpcclient]
            except Exception:  # noqa: BLE001
                pass
            QsSim._guard = StateGuard(mods)
            QsSim._mods = mods
        self.leaked_state = QsSim._guard.restore()  # containers a previous run left modified
        if getattr(QsSim, "_jobs_guard", None) is not None:
            self.leaked_state += QsSim._jobs_guard.restore()

        # `random` is an optional seam: an implementation that picks the blocked worker
        # deterministically does not import it
        self._saved = (jobs.time, getattr(jobs, "random", None), misc.gevent)
        jobs.time = self.clock
        # any other module of the server (or of nserve) that reads the clock reads the simulated one
        import time as _real_time
        self._saved_time_mods = []
        for mod in list(getattr(QsSim, "_mods", None) or [jobs, misc, qserve, rpcserver]):
            if mod is not jobs and getattr(mod, "time", None) is _real_time:
                self._saved_time_mods.append(mod)
                mod.time = self.clock
        if self._saved[1] is not None:
            jobs.random = self.random
        misc.gevent = _GeventProxy(self)
        hub = gevent.get_hub()
        self._saved_handle_error = hub.__dict__.get("handle_error")
        hub.handle_error = self._hub_error
        self._real_loop = vtimer.install(self)  # gevent's own timers become virtual, too

    def _uninstall(self):
        jobs.time, misc.gevent = self._saved[0], self._saved[2]
        import time as _real_time
        for mod in getattr(self, "_saved_time_mods", []):
            mod.time = _real_time
        if self._saved[1] is not None:
            jobs.random = self._saved[1]
        vtimer.uninstall(self._real_loop)
        rpcserver.Server = _REAL_SERVER[0]
        hub = gevent.get_hub()
        if self._saved_handle_error is None:
            hub.__dict__.pop("handle_error", None)
        else:
            hub.handle_error = self._saved_handle_error

    def _hub_error(self, context, etype, value, tb):
        if etype is not None and issubclass(etype, gevent.GreenletExit):
            return
        self.hub_errors.append((getattr(etype, "__name__", str(etype)), str(value)[:200]))

    def _notify(self, fn, *args):
        """Oracle callbacks run inside the SUT's greenlets; a Violation must not unwind
        through server code, so it is parked here and raised by the driver."""
        if self.violation is not None:
            return
        try:
            fn(*args)
        except Violation as v:
            self.violation = v

    def count(self, key, n=1):
        self.counters[key] = self.counters.get(key, 0) + n

    # ---- server ----------------------------------------------------------------
    def _start_server(self, bind_fails=False):
        """Runs the real qserve.Main.run(): its Handler class, its timer loops and its
        `finally: savedb()`.  The only thing replaced is rpcserver.Server's constructor and
        run_forever (which bind and serve a TCP socket); handle_client is the real one.
        bind_fails: a start attempt that dies because the port is still taken (the state has been
        loaded by then); nothing is served and nothing of the simulator's view changes."""
        sim = self

        class FakeStreamServer:
            """Stands in for gevent.server.StreamServer inside qs.rpcserver: no socket is bound; the
            simulator hands connections to the handler the way StreamServer would (spawn(handle, ...))."""
            pool = None

            def __init__(ss, listener, handle=None, spawn="default", **_kw):
                ss.address = listener
                ss.handle = handle
                ss._spawn = spawn
                ss.socket = _Namespace(getsockname=lambda: ("sim", 14311))
                ss._stop = gevent.event.Event()
                ss.started = False
                if bind_fails:
                    raise OSError(98, "Address already in use (injected)")
                sim._stream_servers.append(ss)

            def init_socket(ss):
                pass

            def start(ss):
                ss.started = True

            def serve_forever(ss, stop_timeout=None):
                ss.started = True
                ss._stop.wait()

            def stop(ss, timeout=None):
                ss._stop.set()

            close = stop

            def accept(ss, sock, addr):
                if ss._spawn == "default" or ss._spawn is None:
                    return gevent.spawn(ss.handle, sock, addr)
                if hasattr(ss._spawn, "spawn"):
                    return ss._spawn.spawn(ss.handle, sock, addr)
                return ss._spawn(ss.handle, sock, addr)

        class SimServer(_REAL_SERVER[0]):
            """rpcserver.Server with its own __init__, run_forever and handle_client; the subclass only
            wraps the request-handler factory (to stamp executions) and swaps the stream server class."""

            def __init__(fs, *a, **kw):
                grh = kw.get("get_request_handler")
                if grh is not None:
                    # whatever Main.run passes as the handler factory (a class, a partial, a function):
                    # the handler it makes is used through a proxy that stamps calls and the teardown,
                    # then delegates - the handler object itself is untouched
                    class StampedHandler:
                        def __init__(self, real, sock):
                            self.__dict__["_real"] = real
                            self.__dict__["_sock"] = sock

                        def __call__(self, req):
                            sim._on_exec(self._sock, req)
                            return self._real(req)

                        def shutdown(self, *sa, **skw):
                            sim._on_shutdown(self._sock)
                            sim._lot = []
                            try:
                                return self._real.shutdown(*sa, **skw)
                            finally:
                                lot, sim._lot = sim._lot, None
                                fn = getattr(sim.observer, "on_shutdown_done", None)
                                if fn is not None and lot and not sim.stopping:
                                    sim._notify(fn, self._sock.name, lot)

                        def __getattr__(self, name):
                            return getattr(self._real, name)

                        def __setattr__(self, name, value):
                            setattr(self._real, name, value)

                    def make_handler(*ha, **hkw):
                        h = grh(*ha, **hkw)
                        client = hkw.get("client") or (ha[0] if ha else None)
                        sock = client[0] if isinstance(client, (tuple, list)) else client
                        sim.handlers[sock.name] = h
                        return StampedHandler(h, sock)

                    kw["get_request_handler"] = make_handler
                with _stream_server_patched(FakeStreamServer):
                    super().__init__(*a, **kw)
                sim.server = fs

            def log(fs, msg):
                pass

        rpcserver.Server = SimServer
        self._stream_servers = []
        if bind_fails:
            main = qserve.Main(14311, "sim", self.data_dir, set())  # real loaddb()
            g = gevent.spawn(main.run)
            gevent.idle()
            if not g.dead:
                g.kill(block=True)
            self.hub_errors = [e for e in self.hub_errors if "Address already in use" not in e[1]]
            return
        self.handlers = {}
        if self.backdoor:
            # deployment knob of qserve: a gevent backdoor next to the RPC port.  The real
            # BackdoorServer listens on an ephemeral loopback port nobody ever connects to; the
            # subclass only remembers the instance so that its socket can be closed afterwards.
            os.environ["QSERVE_BACKDOOR"] = "0"
            from gevent import backdoor as _bd
            if not getattr(_bd.BackdoorServer, "_vsim_recording", False):
                real_bs = _bd.BackdoorServer

                class RecordingBackdoorServer(real_bs):
                    _vsim_recording = True
                    _vsim_real = real_bs

                    def __init__(bself, *a, **kw):
                        real_bs.__init__(bself, *a, **kw)
                        QsSim._all_backdoors.append(bself)

                _bd.BackdoorServer = RecordingBackdoorServer
        else:
            os.environ.pop("QSERVE_BACKDOOR", None)
        self.main = qserve.Main(14311, "sim", self.data_dir, set())  # real loaddb()
        for name in ("report", "watchdog", "handletimeouts"):
            if hasattr(self.main, name):
                setattr(self.main, name, self._stamped_timer(name, getattr(self.main, name)))
        # housekeeping functions under other names (a refactored Main) are stamped all the same, as
        # ticks of an unknown kind: the model then resolves time-outs and drops by observation only
        if not hasattr(misc.CallInLoop, "_vsim_real_init"):
            misc.CallInLoop._vsim_real_init = misc.CallInLoop.__init__

            def _init(cl, sleep_time, function, *a, **kw):
                cur = QsSim._current
                if cur is not None and not getattr(function, "_vsim_stamped", False):
                    function = cur._stamped_timer("other:" + getattr(function, "__name__", "?"), function)
                misc.CallInLoop._vsim_real_init(cl, sleep_time, function, *a, **kw)

            misc.CallInLoop.__init__ = _init
        QsSim._current = self
        self.workq = self.main.db.workq
        self._lot = None
        real_push = getattr(self.workq, "pushjob", None)

        def pushjob(job, *a, **kw):
            # observation only: which jobs a connection's teardown pushes back, and where they land
            r = real_push(job, *a, **kw)
            if sim._lot is not None:
                try:
                    queued = any(x is job for x in sim.workq.channel2q.get(job.channel, ()))
                except Exception:
                    queued = None
                sim._lot.append((getattr(job, "jobid", None), getattr(job, "serial", None), queued))
            return r

        if real_push is not None:
            try:
                self.workq.pushjob = pushjob
            except AttributeError:
                pass
        self.main_greenlet = gevent.spawn(self.main.run)
        self.timer_greenlets = []
        gevent.idle()  # Main.run proceeds to run_forever; the timer loops do their first round
        if getattr(self, "server", None) is None or not self._stream_servers or not self._stream_servers[-1].started \
                or self.main_greenlet.dead:
            raise HarnessError("qserve.Main.run did not reach run_forever")

    def _stop_server(self):
        """Graceful stop: run_forever returns, Main.run's finally saves the queue and kills
        its timer loops."""
        for ss in self._stream_servers:
            ss._stop.set()
        gevent.idle()
        if not self.main_greenlet.dead:
            self.main_greenlet.kill(block=True)
        self._close_backdoors()
        # files carry the simulated time, too
        for name in os.listdir(self.data_dir):
            try:
                os.utime(os.path.join(self.data_dir, name), (self.clock.time(), self.clock.time()))
            except OSError:
                pass

    _all_backdoors = []
    _current = None

    def _close_backdoors(self):
        # (the process is gone: its listening sockets go with it)
        while QsSim._all_backdoors:
            bs = QsSim._all_backdoors.pop()
            try:
                bs.stop()
            except Exception:  # noqa: BLE001
                pass

    def enable_backdoor(self):
        """From now on the server runs with QSERVE_BACKDOOR set; takes effect by restarting the
        (still empty) server.  False when loopback sockets are not available here."""
        if not _loopback_ok():
            return False
        self.backdoor = True
        self.restart(0.0)
        return True

    def _stamped_timer(self, name, fun):
        def tick():
            if self.stopping:
                return
            self._stamp("tick", name, self.clock.time())
            self._notify(self.observer.on_tick, name, self.clock.time())
            fun()
            self._notify(self.observer.on_tick_done, name, self.clock.time())

        tick.__name__ = name.split(":")[-1]
        tick._vsim_stamped = True
        return tick

    # ---- stamping --------------------------------------------------------------
    def _stamp(self, *items):
        self.seq += 1
        self.digest.add(self.seq, *items)

    def _on_exec(self, sock, req):
        if self.stopping:
            return
        rpc, args = req
        self._stamp("exec", sock.name, rpc, json.dumps(args, sort_keys=True))
        self._notify(self.observer.on_exec, sock.name, rpc, args, self.clock.time())

    def _on_response(self, sock, data):
        if self.stopping:
            return
        req = sock.outstanding.pop(0) if sock.outstanding else None
        self._stamp("resp", sock.name, data)
        if req is None:
            self.hub_errors.append(("HarnessError", f"response without request on {sock.name}: {data[:80]}"))
            return
        payload = json.loads(data)
        self._notify(self.observer.on_resp, sock.name, req[0], req[1], payload, self.clock.time())
        cb = sock.reply_cb
        if cb is not None:  # an in-process RPC client (nserve) is parked on this response
            sock.reply_cb = None
            cb(payload)

    def _on_shutdown(self, sock):
        if self.stopping:
            return
        self._stamp("shutdown", sock.name)
        self._notify(self.observer.on_shutdown, sock.name, self.clock.time())

    # ---- virtual time ----------------------------------------------------------
    def _virtual_sleep(self, seconds):
        ev = gevent.event.Event()
        self.schedule_timer(seconds, ev.set)
        ev.wait()

    def schedule_timer(self, after, fire):
        """Entry point for CallInLoop's sleeps and for every gevent timer the SUT creates."""
        self.seq += 1
        heapq.heappush(self.sleepers, (self.clock.mono + after, self.seq, fire))

    def count_timer_fired(self):
        self.count("gevent-timer-fired")

    def advance(self, delta):
        """Let `delta` virtual seconds pass; every due sleeper fires at its own time and
        the system runs to quiescence after each."""
        target = self.clock.mono + delta
        fired = 0
        while self.sleepers and self.sleepers[0][0] <= target:
            due, _, fire = heapq.heappop(self.sleepers)
            if due > self.clock.mono:
                self.clock.mono = due
            fire()
            gevent.idle()
            fired += 1
            if fired > 100000:
                raise HarnessError("timer storm")
        self.clock.mono = target
        return fired

    def tick(self, delta):
        """A stalled event loop: `delta` seconds pass, then every due sleeper is made
        runnable at once, *without* running it - it shares the next quantum with
        whatever else is injected."""
        self.clock.mono += delta
        fired = 0
        due_now = []
        while self.sleepers and self.sleepers[0][0] <= self.clock.mono:
            due_now.append(heapq.heappop(self.sleepers))
        for _, _, fire in due_now:
            fire()
            fired += 1
        return fired

    def jump(self, delta):
        """Wall-clock step (NTP, operator): time.time() moves, sleepers do not."""
        self.clock.skew += delta

    # ---- connections -----------------------------------------------------------
    def is_live(self, name):
        s = self.conns.get(name)
        return s is not None and not s.eof_sent and s.epoch == self.epoch

    def can_send(self, name, pipelined=False):
        if not self.is_live(name):
            return False
        n = len(self.conns[name].outstanding)
        return n == 0 or (pipelined and n < 3)

    def connect(self, name):
        if self.is_live(name):
            return False
        gen = self.generations.get(name, 0)
        self.generations[name] = gen + 1
        cid = name if gen == 0 else f"{name}~{gen + 1}"
        sock = FakeSock(self, cid, self.epoch, script_name=name)
        self.conns[name] = sock
        self.socks[cid] = sock
        self._stamp("connect", cid)
        sock.greenlet = self._stream_servers[-1].accept(sock, (cid, 0))
        return True

    def cid(self, name):
        s = self.conns.get(name)
        return s.name if s is not None else None

    def disconnect(self, name):
        if not self.is_live(name):
            return False
        sock = self.conns[name]
        sock.eof_sent = True
        self._stamp("eof", sock.name)
        sock.inq.put("")
        return True

    def reset(self, name):
        """The peer vanishes with a connection reset (crash, SO_LINGER 0, NAT timeout): the
        server's next read fails with ECONNRESET and whatever it still writes hits EPIPE."""
        if not self.is_live(name):
            return False
        sock = self.conns[name]
        sock.eof_sent = True
        sock.broken = True
        self._stamp("rst", sock.name)
        sock.inq.put(ConnectionResetError(104, "Connection reset by peer (injected)"))
        return True

    def send(self, name, rpc, args, pipelined=False):
        if not self.can_send(name, pipelined):
            return False
        sock = self.conns[name]
        sock.outstanding.append((rpc, args))
        line = json.dumps((rpc, args)) + "\n"
        self._stamp("send", sock.name, line)
        sock.inq.put(line)
        return True

    def yield_gen(self):
        gevent.sleep(0)

    def quiesce(self):
        gevent.idle()

    # ---- restart (C18) ---------------------------------------------------------
    def _kill_all(self):
        gl = [s.greenlet for s in self.socks.values() if s.greenlet is not None and not s.greenlet.dead]
        self.stopping = True
        try:
            try:
                if not self.main_greenlet.dead:
                    self.main_greenlet.kill(block=True)
                gevent.killall(gl, block=True)
            except gevent.exceptions.LoopExit:
                # a server greenlet does not die when killed (it blocks again in its clean-up):
                # leave it behind, the run's verdict is what counts
                self.hub_errors.append(("LoopExit", "a server greenlet survived its kill"))
                gevent.killall([g for g in gl if not g.dead], block=False)
            gevent.idle()
        finally:
            self.stopping = False
        self.sleepers = []

    def restart(self, downtime=0.0, failed_attempts=0):
        """Stop and start the server process: Main.run's own `finally: savedb()` writes the
        pickle, the process exits (all client greenlets vanish with it), `downtime` seconds
        pass with no server at all, then a new Main loads the pickle."""
        gevent.idle()
        live = [n for n in self.conns if self.is_live(n)]
        self._stop_server()
        self._kill_all()
        self.clock.mono += max(0.0, float(downtime))
        self.conns = {}
        self.socks = {}
        self.epoch += 1
        self._stamp("restart", self.epoch)
        self._notify(self.observer.on_restart, self.clock.time())
        self._new_process()
        self.clock.mono += PHASE  # the new server's timer phase differs from every earlier request phase
        try:
            for _ in range(int(failed_attempts or 0)):
                self._start_server(bind_fails=True)
                self.clock.mono += 1.0
            self._start_server()
        except (HarnessError, Exception) as e:  # noqa: BLE001
            # the queue server does not come up from the state it saved itself
            import traceback
            tb = traceback.format_exc()
            self.violation = self.violation or Violation(
                "R-restart", f"the queue server cannot start from its own saved state: {type(e).__name__}: {e}",
                detail={"traceback": tb[-1200:]})
            # bring up a fresh, empty server so that the run can end in an orderly way
            import os as _os
            try:
                _os.unlink(_os.path.join(self.data_dir, "workq.pickle"))
            except OSError:
                pass
            self._start_server()
        self.clock.mono += PHASE
        gevent.idle()
        return live

    def _new_process(self):
        """The restarted server is a NEW process: module-level state of the queue module (module
        and class attributes, default arguments evaluated at import, caches) does not survive; only
        the saved file does.  qs.jobs is executed again - under the simulated clock, so that whatever
        it evaluates at import time sees the time of the restart - and the seams are put back."""
        import importlib
        import time as _real_time
        if os.environ.get("VERIF_NO_REIMPORT"):
            return
        saved_time_fn = _real_time.time
        _real_time.time = self.clock.time
        try:
            importlib.reload(jobs)
        finally:
            _real_time.time = saved_time_fn
        self._saved = (_real_time, getattr(jobs, "random", None), self._saved[2])
        jobs.time = self.clock
        if self._saved[1] is not None:
            jobs.random = self.random
        from .stateguard import StateGuard
        QsSim._jobs_guard = StateGuard([jobs])  # the fresh module's containers (the old ones are unreachable)
        self.count("server-module-reimported")

    def close(self):
        try:
            self._kill_all()
        finally:
            self._close_backdoors()
            os.environ.pop("QSERVE_BACKDOOR", None)
            QsSim._current = None
            self._uninstall()
