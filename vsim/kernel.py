"""Common kernel of the deterministic simulators: seed discipline, digest, replay
files, delta-debugging minimiser.  Standard library only."""

import hashlib
import json
import os
import random
import sys
import time as _real_time

VERIF_ROOT = os.path.dirname(os.path.dirname(os.path.abspath(__file__)))
REPO = os.environ.get("VERIF_REPO", "/repo")
SLEEP_IS_NOOP = False  # set in forked fsfault children (see runner.install_tripwires)


def derive_seed(*parts):
    """One integer decides everything: H(VERIF_SEED, property, run index, purpose)."""
    h = hashlib.sha256(repr(parts).encode()).digest()
    return int.from_bytes(h[:8], "big")


def rng_for(*parts):
    return random.Random(derive_seed(*parts))


class Digest:
    """Order-sensitive digest of an event log (no clock, no PRNG inside)."""

    def __init__(self):
        self._h = hashlib.blake2b(digest_size=12)
        self.n = 0

    def add(self, *items):
        self._h.update(repr(items).encode("utf-8", "backslashreplace"))
        self._h.update(b"\x00")
        self.n += 1

    def hex(self):
        return self._h.hexdigest()


def stable_hash(obj):
    return hashlib.blake2b(
        json.dumps(obj, sort_keys=True, default=repr).encode(), digest_size=8
    ).hexdigest()


class Violation(Exception):
    """A property violation found by an oracle (not a harness error)."""

    def __init__(self, cls, message, step_index=None, detail=None):
        Exception.__init__(self, f"{cls}: {message}")
        self.cls = cls
        self.message = message
        self.step_index = step_index
        self.detail = detail

    def as_dict(self):
        return {
            "class": self.cls,
            "message": self.message,
            "step_index": self.step_index,
            "detail": self.detail,
        }


class HarnessError(Exception):
    """Something is wrong with the simulator itself; never reported as a violation."""


def write_json(path, obj):
    tmp = path + ".tmp%d" % os.getpid()
    with open(tmp, "w") as f:
        json.dump(obj, f, indent=1, sort_keys=True, default=repr)
        f.write("\n")
    os.replace(tmp, path)


def read_json(path):
    with open(path) as f:
        return json.load(f)


def ddmin(items, still_fails, budget=400):
    """Classic ddmin over a list; `still_fails(list) -> bool`.  Bounded by `budget`
    candidate executions.  Returns the reduced list."""
    used = [0]

    def test(cand):
        if used[0] >= budget:
            return False
        used[0] += 1
        return still_fails(cand)

    n = 2
    cur = list(items)
    while len(cur) >= 2 and used[0] < budget:
        chunk = max(1, len(cur) // n)
        subsets = [cur[i:i + chunk] for i in range(0, len(cur), chunk)]
        reduced = False
        # try complements (remove one chunk)
        for i in range(len(subsets)):
            cand = [x for j, s in enumerate(subsets) if j != i for x in s]
            if cand and test(cand):
                cur = cand
                n = max(n - 1, 2)
                reduced = True
                break
        if not reduced:
            if chunk == 1:
                break
            n = min(len(cur), n * 2)
    # final single-element sweep
    i = 0
    while i < len(cur) and used[0] < budget and len(cur) > 1:
        cand = cur[:i] + cur[i + 1:]
        if test(cand):
            cur = cand
        else:
            i += 1
    return cur


def scratch_root():
    d = os.environ.get("VERIF_TMPDIR")
    if d:
        return d
    for cand in ("/dev/shm", "/tmp"):
        if os.path.isdir(cand) and os.access(cand, os.W_OK):
            return cand
    return "/tmp"


def wall():
    return _real_time.monotonic()


def eprint(*a):
    print(*a, file=sys.stderr, flush=True)
