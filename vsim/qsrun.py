"""Driver for the qs world: seeded step generation (state-aware, swarm-configured),
execution, recording, replay, epilogue (final probes + drain) and minimisation."""

import os
import random

from .kernel import HarnessError, Violation, ddmin, stable_hash
from .qsmodel import QsModel
from .qsworld import QsSim

CHANNELS = ["a", "b", "c"]
JOBIDS = ["j1", "j2", "j3", "j4", "j5", "j6"]


class Config(dict):
    __getattr__ = dict.__getitem__


def draw_config(rng, mode="bounded", allow_restart=False, faults=True):
    c = Config()
    c["mode"] = mode
    if mode == "bounded":
        c["n_ops"] = rng.randint(3, 10)
        c["workers"] = ["w1", "w2", "w3"][: rng.randint(1, 3)]
        c["clients"] = ["c1", "c2"][: rng.randint(1, 2)]
        c["channels"] = CHANNELS[:2]
        c["jobids"] = JOBIDS[: rng.randint(1, 4)]
    else:
        c["n_ops"] = rng.randint(12, 60)
        c["workers"] = ["w1", "w2", "w3", "w4", "w5"][: rng.randint(1, 5)]
        c["clients"] = ["c1", "c2", "c3"][: rng.randint(1, 3)]
        c["channels"] = CHANNELS[: rng.randint(1, 3)]
        c["jobids"] = JOBIDS[: rng.randint(1, 6)]
    if rng.random() < 0.25:
        # legal but unusual explicit ids: 0 and the empty string (falsy)
        c["jobids"] = c["jobids"] + rng.choice([[0], [""], [0, ""], [2], [3, 2], [0, 1], [3, 4], [2, 3, 4],
                                                # a number and the string that prints the same are different ids
                                                ["1"], [1, "1"], ["2", 2, "1"], ["1", "2", "3"]])
    if rng.random() < 0.1:
        # channel names are just JSON values used as dictionary keys: numbers are as good as strings
        c["channels"] = [7, 8, 9][: len(c["channels"])]
    c["p_noid"] = rng.choice([0.0, 0.2, 0.5])
    # (a priority is a number: fractions are as good as integers)
    c["prios"] = rng.choice([[0], [0, 1], [0, 1, 2], [2, 1, 0, 0], [0, 1], [1.5, 1.2, 1.9, 1], [0.75, 0.5, 0.25]])
    # always explicit: the defaults (120 s, 3600 s) are implementation constants, not properties
    c["timeouts"] = rng.choice([[120], [120, 5, 60], [5], [120, 1200]])
    c["ttls"] = rng.choice([[3600], [3600, 20, 100]])
    # swarm: each run enables a random subset of op kinds with random weights
    w = {"add": rng.choice([2, 4, 6]), "pull": rng.choice([2, 4, 6]), "run": rng.choice([2, 4, 8]),
         "finish": rng.choice([1, 3]), "yield": rng.choice([0, 0, 1])}
    opt = {"kill": [0, 1, 2], "disconnect": [0, 1, 3], "reconnect": [0, 1], "wait": [0, 1, 2],
           "addwait": [0, 0, 1], "setinfo": [0, 1], "info": [0, 1, 2], "stats": [0, 1],
           "adv": [0, 1, 2], "tick": [0, 1, 2], "jump": [0, 1], "restart": [0, 0, 1], "drop": [0, 0, 1],
           "reset": [0, 0, 1, 2], "pipeline": [0, 0, 1]}
    for k, choices in opt.items():
        w[k] = rng.choice(choices)
    if not faults:
        for k in ("disconnect", "reconnect", "tick", "jump", "restart", "kill", "reset"):
            w[k] = 0
    if not allow_restart:
        w["restart"] = 0
    c["weights"] = w
    c["p_inflight_fault"] = rng.choice([0.0, 0.3, 0.6])
    # state-aware bias towards jobs that something still refers to (a blocked waiter's list, a drop mark):
    # killing / re-adding / finishing exactly those is where incarnations get mixed up
    c["bias_refs"] = rng.random() < 0.5
    c["near_ids"] = rng.random() < 0.3
    # a directed motif woven into the random steps of some runs (see QsRun._motif_step)
    c["motif"] = {"kind": rng.choice(["reincarnate", "reincarnate", "deadlines", "window", "window", "window", "waitstorm", "waitstorm"]),
                  "drop": rng.random() < 0.6, "p": rng.choice([0.4, 0.7]), "short": rng.choice([5, 60]),
                  "restart": allow_restart, "events": rng.randint(2, 3),
                  "pull": rng.choice([[], [], "one", "two"])} \
        if rng.random() < 0.18 else None
    c["backdoor"] = rng.random() < 0.06  # deployment knob QSERVE_BACKDOOR
    c["faults"] = faults
    return c


class QsRun:
    """One simulated history.  Either generates steps from `rng` (recording them) or
    replays `script`.  The model is the observer; Violations propagate out of step()."""

    def __init__(self, data_dir, rng=None, config=None, script=None, choices=None,
                 whitebox=True, model_cls=QsModel, own=None):
        self.data_dir = data_dir
        pk = os.path.join(data_dir, "workq.pickle")
        if os.path.exists(pk):
            os.unlink(pk)
        self.rng = rng
        self.config = config
        self.script = script
        self.model = model_cls(whitebox=whitebox, own=own)
        self.sim = QsSim(data_dir, rng=random.Random(rng.getrandbits(64)) if rng else None,
                         choices=choices, observer=self.model)
        self.model.sim = self.sim
        self.steps = []
        self.quanta = 0
        self.multi_event_quanta = 0
        self._events_in_quantum = 0
        self.interleaving_hashes = set()
        self._quantum_events = []
        self.fault_counts = {}
        self.closed = False

    # ---- step execution -----------------------------------------------------
    def fault(self, kind, n=1):
        if n:
            self.fault_counts[kind] = self.fault_counts.get(kind, 0) + n

    def _inject(self, label):
        self._events_in_quantum += 1
        self._quantum_events.append(label)

    def _end_quantum(self):
        self.quanta += 1
        if self._events_in_quantum >= 2:
            self.multi_event_quanta += 1
            self.fault("multi-event-quantum")
        if self._quantum_events:
            self.interleaving_hashes.add(stable_hash(self._quantum_events))
        self._events_in_quantum = 0
        self._quantum_events = []

    def step(self, st):
        """Execute one concrete step; returns False if it is not applicable (skipped)."""
        sim, model = self.sim, self.model
        op = st[0]
        if op == "connect":
            ok = sim.connect(st[1])
            if ok:
                self._inject(("connect", st[1]))
        elif op == "disconnect":
            name = st[1]
            cid = sim.cid(name)
            blocked = cid in model.pulls
            holding = any(j.state == "h" and j.holder == cid for j in model.jobs.values())
            waiting = cid in model.waits
            ok = sim.disconnect(name)
            if ok:
                self._inject(("eof", name))
                self.fault("disconnect")
                if blocked:
                    self.fault("disconnect-while-blocked-in-pull")
                if holding:
                    self.fault("disconnect-while-holding")
                if waiting:
                    self.fault("disconnect-while-waiting")
        elif op == "reset":
            name = st[1]
            cid = sim.cid(name)
            holding = any(j.state == "h" and j.holder == cid for j in model.jobs.values())
            ok = sim.reset(name)
            if ok:
                self._inject(("rst", name))
                self.fault("connection-reset")
                if holding:
                    self.fault("connection-reset-while-holding")
                if sim.conns[name].outstanding:
                    self.fault("connection-reset-with-request-in-flight")
        elif op == "send":
            pipelined = len(st) > 4 and st[4] == "pipelined"
            ok = sim.send(st[1], st[2], st[3], pipelined)
            if ok:
                self._inject(("send", st[1], st[2]))
                if pipelined and len(sim.conns[st[1]].outstanding) > 1:
                    self.fault("pipelined-request")
        elif op == "yield":
            sim.yield_gen()
            ok = True
        elif op == "run":
            self._quiesce()
            ok = True
        elif op == "adv":
            self._quiesce()
            n = sim.advance(st[1])
            self.fault("timer-fired", n)
            self._end_quantum()
            self._raise_pending()
            model.at_quiescence()
            ok = True
        elif op == "tick":
            n = sim.tick(st[1])
            if n:
                self._inject(("tick", n))
                self.fault("stalled-loop-tick")
            ok = True
        elif op == "jump":
            sim.jump(st[1])
            model.note_jump(st[1])
            self.fault("clock-jump")
            self._inject(("jump", st[1]))
            ok = True
        elif op == "restart":
            self._quiesce()
            downtime = st[1] if len(st) > 1 else 0.0
            failed = st[2] if len(st) > 2 else 0
            live = sim.restart(downtime, failed_attempts=failed)
            self.fault("restart")
            if failed:
                self.fault("restart-first-start-attempt-fails")
            if downtime:
                self.fault("restart-with-downtime")
            for name in live:  # a restarted server's clients reconnect
                sim.connect(name)
            self._quiesce()
            ok = True
        elif op == "backdoor":
            ok = sim.enable_backdoor()
            if ok:
                self.fault("config-backdoor-enabled")
        else:
            ok = self.step_extra(st)
        if sim.violation is not None:
            raise sim.violation
        return ok

    def step_extra(self, st):
        raise HarnessError(f"unknown step {st!r}")

    def do(self, st):
        self.steps.append(st)  # recorded before execution: a violating step is part of the script
        ok = self.step(st)
        if not ok:
            self.steps.pop()
        return ok

    # ---- generation -----------------------------------------------------------
    def prologue(self):
        c = self.config
        if c.get("backdoor"):
            self.do(["backdoor"])
        for name in c.clients + c.workers:
            self.do(["connect", name])
        self.do(["run"])

    def _sendable(self, names):
        return [n for n in names if self.sim.can_send(n)]

    def _motif_window(self, m, sendable):
        """'A storm in the hand-off window': a worker blocks in qpull; a job is added and handed to it;
        before the event loop runs again two or three more things happen - a job on another (perhaps
        never used) channel, the handed-off job killed / finished / dropped, the worker's connection
        closed or reset, another worker pulling, a timer tick."""
        rng, model, c = self.rng, self.model, self.config
        cid = self.sim.cid
        k = m["stage"]
        m["stage"] += 1
        if k == 0:
            ws = [n for n in self._sendable(c.workers) if cid(n) not in model.pulls]
            if not ws:
                self._motif_state = None
                return None
            chans = m["pull"]
            if chans == "one":
                chans = [rng.choice(c.channels)]
            elif chans == "two":
                chans = sorted(rng.sample(c.channels, min(2, len(c.channels))), key=str)
                if rng.random() < 0.4:
                    chans = rng.choice([chans[::-1], chans + chans[:1]])
            m["W"], m["chans"] = rng.choice(ws), chans
            return ["send", m["W"], "qpull", {"channels": chans}]
        if k == 1:
            return ["run"]
        if cid(m["W"]) not in model.pulls and k == 2:
            self._motif_state = None  # the pull was answered at once: no window to play in
            return None
        if k == 2:
            if c.faults and not m.get("pre_done") and rng.random() < 0.3 and self.sim.is_live(m["W"]):
                # the blocked worker's connection goes away first: its kill is pending while the rest happens
                m["pre_done"] = True
                m["stage"] -= 1
                return [rng.choice(["disconnect", "reset"]), m["W"]]
            m["pre_done"] = True
            a = self._add_args(channel=rng.choice(m["chans"] or c.channels))
            a.pop("wait", None)
            m["before"] = set(model.jobs)
            others = [n for n in sendable if n != m["W"]] or sendable
            return ["send", rng.choice(others), "qadd", a]
        if k < 3 + m["events"]:
            new = [j for jid, j in model.jobs.items() if jid not in m.get("before", ())]
            jid = sorted(new, key=lambda j: j.serial)[-1].jobid if new else self._known_id()
            used = {x.channel for x in model.jobs.values()}
            fresh = [x for x in c.channels if x not in used]
            ev = rng.choice(["add-other", "add-other", "add-same", "kill", "kill", "finish", "drop", "disconnect", "reset",
                             "pull", "tick", "readd", "readd"])
            others = [n for n in sendable if n != m["W"]] or sendable
            if ev == "add-other":
                a = self._add_args(channel=rng.choice(fresh or c.channels))
                a.pop("wait", None)
                return ["send", rng.choice(others), "qadd", a]
            if ev == "add-same":
                a = self._add_args(channel=rng.choice(m["chans"] or c.channels))
                a.pop("wait", None)
                return ["send", rng.choice(others), "qadd", a]
            if ev == "kill":
                return ["send", rng.choice(others), "qkill", {"jobids": [jid]}]
            if ev == "readd":
                jm = model.jobs.get(jid)
                a = self._add_args(channel=jm.channel if jm is not None else rng.choice(m["chans"] or c.channels))
                a.pop("wait", None)
                a["jobid"] = jid
                return ["send", rng.choice(others), "qadd", a]
            if ev == "finish":
                return ["send", rng.choice(others), "qfinish", {"jobid": jid, "result": {"r": 1}}]
            if ev == "drop":
                return ["send", rng.choice(others), "qdrop", {"jobids": [jid]}]
            if ev in ("disconnect", "reset") and self.sim.is_live(m["W"]) and c.faults:
                return [ev, m["W"]]
            if ev == "pull":
                ws = [n for n in self._sendable(c.workers) if n != m["W"]]
                if ws:
                    return ["send", rng.choice(ws), "qpull", {"channels": m["chans"]}]
            return ["tick", 1]
        self._motif_state = None
        self.fault("motif-storm-in-hand-off-window")
        return ["run"]

    def _motif_waitstorm(self, m, sendable):
        """'A storm around a waiter': a client waits for a job; before (or just after) the loop runs, two or
        three more things happen - the job finished or killed, the waiter's connection closed or reset, a
        second client waiting for the same job, the job dropped or added again, a tick."""
        rng, model, c = self.rng, self.model, self.config
        k = m["stage"]
        m["stage"] += 1
        if k == 0:
            live = sorted([j for j in model.jobs.values() if j.state != "d"], key=lambda j: j.serial)
            cl = [n for n in sendable if n in c.clients] or sendable
            if not live:
                m["stage"] = 0
                m["adds"] = m.get("adds", 0) + 1
                if m["adds"] > 3:
                    self._motif_state = None
                    return None
                return ["send", rng.choice(sendable), "qadd", self._add_args()]
            m["J"], m["C"] = rng.choice(live).jobid, rng.choice(cl)
            return ["send", m["C"], "qwait", {"jobids": [m["J"]]}]
        if k == 1 and rng.random() < 0.5:
            return ["run"]
        if k < 2 + m["events"]:
            others = [n for n in sendable if n != m["C"]] or sendable
            jid = m["J"]
            ev = rng.choice(["finish", "kill", "kill", "disconnect", "disconnect", "reset", "wait", "wait", "readd", "drop", "tick"])
            if ev == "finish":
                return ["send", rng.choice(others), "qfinish", {"jobid": jid, "result": {"r": 2}}]
            if ev == "kill":
                return ["send", rng.choice(others), "qkill", {"jobids": [jid] * rng.choice([1, 1, 2])}]
            if ev in ("disconnect", "reset") and self.sim.is_live(m["C"]) and c.faults:
                return [ev, m["C"]]
            if ev == "wait":
                return ["send", rng.choice(others), "qwait", {"jobids": [jid]}]
            if ev == "readd":
                jm = model.jobs.get(jid)
                a = self._add_args(channel=jm.channel if jm is not None else rng.choice(c.channels))
                a.pop("wait", None)
                a["jobid"] = jid
                return ["send", rng.choice(others), "qadd", a]
            if ev == "drop":
                return ["send", rng.choice(others), "qdrop", {"jobids": [jid]}]
            return ["tick", 1]
        self._motif_state = None
        self.fault("motif-storm-around-a-waiter")
        return ["run"]

    def _motif_new_add(self, timeout):
        a = self._add_args()
        a.pop("wait", None)
        a["timeout"] = timeout
        unused = [x for x in self.config.jobids if x not in self.model.jobs]
        if unused:
            a["jobid"] = self.rng.choice(unused)
        else:
            a.pop("jobid", None)
        return a

    def _motif_step(self):
        """'A new incarnation under a waiter': [mark R for dropping;] a client waits for [M, R] and blocks
        on M; R is killed and added again under its id; M finishes and the waiter moves on to R.  Emitted
        step by step between random steps; each step is resolved against the state at that moment."""
        m, rng, model, c = self._motif_state, self.rng, self.model, self.config
        sendable = self._sendable(c.clients + c.workers)
        if not sendable:
            return None
        cid = self.sim.cid
        if m.get("kind") == "window":
            return self._motif_window(m, sendable)
        if m.get("kind") == "waitstorm":
            return self._motif_waitstorm(m, sendable)
        if m.get("kind") == "deadlines":
            # 'deadlines out of order across a restart': a job with a long time limit is added before
            # one with a short limit, the server restarts, and the clock passes the short limit only
            k = m["stage"]
            m["stage"] += 1
            if k in (0, 1):
                return ["send", rng.choice(sendable), "qadd", self._motif_new_add(1200 if k == 0 else m["short"])]
            if k == 2 and m.get("restart"):
                return ["restart"]
            if k == 3:
                return ["jump", m["short"] + rng.choice([1, 10, 70])]
            if k == 4:
                return ["adv", 2]
            if k >= 5:
                self._motif_state = None
                self.fault("motif-deadlines-out-of-order")
            return None
        if m["stage"] == 0:
            live = sorted([j for j in model.jobs.values() if j.state != "d"], key=lambda j: j.serial)
            if len(live) < 2:
                m["adds"] = m.get("adds", 0) + 1
                if m["adds"] > 6:
                    self._motif_state = None
                    return None
                return ["send", rng.choice(sendable), "qadd", self._add_args()]
            pref = [j for j in live if isinstance(j.jobid, str) and "render" in j.jobid] or live
            r_ = rng.choice(pref)
            m_ = rng.choice([j for j in live if j is not r_])
            m.update(R=r_.jobid, Rchan=r_.channel, M=m_.jobid, stage=1 if m["drop"] else 2)
        st = None
        if m["stage"] == 1:
            st = ["send", rng.choice(sendable), "qdrop", {"jobids": [m["R"]]}]
        elif m["stage"] == 2:
            pool = [n for n in sendable if n in c.clients] or sendable
            st = ["send", rng.choice(pool), "qwait", {"jobids": [m["M"], m["R"]]}]
        elif m["stage"] == 3:
            st = ["send", rng.choice(sendable), "qkill", {"jobids": [m["R"]]}]
        elif m["stage"] == 4:
            a = self._add_args()
            a["channel"], a["jobid"] = m["Rchan"], m["R"]
            a.pop("wait", None)
            st = ["send", rng.choice(sendable), "qadd", a]
        elif m["stage"] == 5:
            j = model.jobs.get(m["M"])
            hn = [n for n in sendable if j is not None and j.holder == cid(n)]
            st = ["send", hn[0] if hn else rng.choice(sendable), "qfinish", {"jobid": m["M"], "result": {"r": rng.randrange(1000)}}]
        m["stage"] += 1
        if m["stage"] > 5:
            self._motif_state = None
            self.fault("motif-reincarnation-under-waiter")
        return st

    def gen_step(self):
        c, rng, sim, model = self.config, self.rng, self.sim, self.model
        if getattr(self, "_motif_state", None) is None and c.get("motif") and not getattr(self, "_motif_done", False) \
                and len(self.steps) >= 4:
            self._motif_done = True
            self._motif_state = dict(c["motif"], stage=0)
        ms = getattr(self, "_motif_state", None)
        if ms is not None and (ms.get("kind") in ("window", "waitstorm") or
                               (self._events_in_quantum == 0 and rng.random() < ms["p"])):
            st = self._motif_step()
            if st is not None:
                return st
        w = dict(c.weights)
        allc = c.clients + c.workers
        sendable = self._sendable(allc)
        live = [n for n in allc if sim.is_live(n)]
        deadc = [n for n in allc if not sim.is_live(n)]
        inflight = bool(model.inflight_possible)
        if not sendable:
            for k in ("add", "pull", "finish", "kill", "wait", "addwait", "setinfo", "info", "stats", "drop"):
                w[k] = 0
        if not self._sendable(c.workers):
            w["pull"] = 0
        if not model.jobs:
            for k in ("finish", "kill", "wait", "setinfo", "info", "drop"):
                w[k] = 0
        if not live:
            w["disconnect"] = 0
            w["reset"] = 0
        busy = [n for n in live if sim.conns[n].outstanding and sim.can_send(n, True)]
        if not busy:
            w["pipeline"] = 0
        if not deadc:
            w["reconnect"] = 0
        if self._events_in_quantum == 0:
            w["run"] = max(1, w["run"] // 4)
        if inflight and c.faults and rng.random() < c.p_inflight_fault:
            # bias faults into the hand-off window
            return self._gen_inflight_fault()
        kinds = [k for k, v in w.items() if v > 0]
        k = rng.choices(kinds, [w[x] for x in kinds])[0]
        return getattr(self, "g_" + k)(sendable, live, deadc)

    def _gen_inflight_fault(self):
        c, rng, model = self.config, self.rng, self.model
        blocked = [n for n in c.clients + c.workers if self.sim.is_live(n) and self.sim.cid(n) in model.pulls]
        j = next(iter(sorted(model.inflight_possible, key=lambda j: j.serial)))
        opts = ["add", "tick"]
        if blocked:
            opts += ["disconnect", "disconnect", "reset"]
        if self._sendable(c.clients + c.workers):
            opts += ["kill", "add"]
        k = rng.choice(opts)
        if k in ("disconnect", "reset"):
            return [k, rng.choice(sorted(blocked))]
        if k == "kill":
            return ["send", rng.choice(self._sendable(c.clients + c.workers)), "qkill", {"jobids": [j.jobid]}]
        if k == "tick":
            return ["tick", rng.choice([0.5, 1, 2])]
        s = self._sendable(c.clients + c.workers)
        if not s:
            return ["run"]
        ch = j.channel
        others = [x for x in c.channels if x != j.channel]
        if others and rng.random() < 0.4:
            # another channel - preferably one the server has not seen a job on yet
            used = {x.channel for x in model.jobs.values()}
            fresh = [x for x in others if x not in used]
            ch = rng.choice(fresh or others)
        return ["send", rng.choice(s), "qadd", self._add_args(channel=ch)]

    def _add_args(self, channel=None, wait=False):
        c, rng = self.config, self.rng
        a = {"channel": channel or rng.choice(c.channels), "priority": rng.choice(c.prios)}
        k = self._readd_candidate() if (channel is None and self._bias(0.5)) else None
        if k is not None:
            a["channel"], a["jobid"] = k.channel, k.jobid
        elif c.get("near_ids") and rng.random() < 0.4:
            # an explicit integer id at or just above the server's own counter: where ids it assigns itself go next
            a["jobid"] = self.model.count + rng.choice([0, 1, 1, 2, 3])
        elif rng.random() >= c.p_noid:
            a["jobid"] = rng.choice(c.jobids)
        t = rng.choice(c.timeouts)
        if t is not None:
            a["timeout"] = t
        t = rng.choice(c.ttls)
        if t is not None:
            a["ttl"] = t
        if rng.random() < 0.3:
            a["payload"] = {"n": rng.randrange(100)}
        if wait:
            a["wait"] = True
        return a

    def _wait_refs(self):
        """(jobs a blocked waiter is waiting on right now, jobs later in such a waiter's list)."""
        blocking, later = [], []
        for conn in sorted(self.model.waits, key=str):
            js = self.model.waits[conn]
            k = next((i for i, j in enumerate(js) if j.state != "d"), None)
            if k is None:
                continue
            blocking.append(js[k])
            later.extend(js[k + 1:])
        return blocking, later

    def _bias(self, p):
        return bool(self.config.get("bias_refs")) and self.rng.random() < p

    def _readd_candidate(self):
        """A killed job that a waiter's list or a drop mark still refers to."""
        _b, later = self._wait_refs()
        pool = [j for j in self.model.jobs.values() if j.state == "d" and j.error == "killed" and (j.drop or j in later)]
        if not pool:
            pool = [j for j in self.model.jobs.values() if j.state == "d" and j.error == "killed"]
        return self.rng.choice(sorted(pool, key=lambda j: j.serial)) if pool else None

    def _known_id(self, prefer=None):
        rng, model = self.rng, self.model
        ids = sorted(model.jobs, key=str)
        if prefer:
            pool = sorted([j.jobid for j in model.jobs.values() if prefer(j)], key=str)
            if pool and rng.random() < 0.8:
                return rng.choice(pool)
        if ids and rng.random() < 0.95:
            return rng.choice(ids)
        return rng.choice(self.config.jobids)

    def g_add(self, sendable, live, deadc):
        pool = [n for n in sendable if n in self.config.clients] or sendable
        return ["send", self.rng.choice(pool), "qadd", self._add_args()]

    def g_addwait(self, sendable, live, deadc):
        pool = [n for n in sendable if n in self.config.clients] or sendable
        return ["send", self.rng.choice(pool), "qadd", self._add_args(wait=True)]

    def g_pull(self, sendable, live, deadc):
        c, rng = self.config, self.rng
        name = rng.choice(self._sendable(c.workers))
        r = rng.random()
        if r < 0.04:
            return ["send", name, "qpull", rng.choice([{}, {"channels": None}])]  # "all channels", spelled by omission
        if r < 0.2:
            chans = []
        elif r < 0.7:
            chans = [rng.choice(c.channels)]
        else:
            chans = sorted(rng.sample(c.channels, min(2, len(c.channels))), key=str)
            if rng.random() < 0.3:
                # any list is a legal channel list: unsorted, or naming a channel twice
                chans = rng.choice([chans[::-1], chans + chans[:1], chans[:1] * 2])
        return ["send", name, "qpull", {"channels": chans}]

    def g_finish(self, sendable, live, deadc):
        rng, model = self.rng, self.model
        cid = self.sim.cid
        holders = [n for n in sendable if any(j.holder == cid(n) for j in model.jobs.values())]
        if holders and rng.random() < 0.8:
            name = rng.choice(holders)
            jid = rng.choice(sorted([j.jobid for j in model.jobs.values() if j.holder == cid(name)], key=str))
        else:
            name = rng.choice(sendable)
            jid = self._known_id()
        blocking, later = self._wait_refs()
        if blocking and later and self._bias(0.6):
            # let a waiter move on to the next job of its list
            j = rng.choice(sorted(blocking, key=lambda j: j.serial))
            jid = j.jobid
            hn = [n for n in sendable if j.holder == cid(n)]
            name = hn[0] if hn else name
        a = {"jobid": jid}
        r = rng.random()
        if r < 0.6:
            a["result"] = {"r": rng.randrange(1000)}
        elif r < 0.9:
            # (an error is whatever JSON value the worker reports: usually a string)
            a["error"] = rng.choice(["boom", "RuntimeError: x in function f, file g.py, line 3", "boom",
                                     {"code": 3, "msg": "x"}, ["boom", 1], 17,
                                     "command failed\nLast Output:\n  Traceback (most recent call last):\n  ...", "\nboom", "x" * 300])
        return ["send", name, "qfinish", a]

    def g_kill(self, sendable, live, deadc):
        rng = self.rng
        ids = [self._known_id(lambda j: j.state != "d")]
        _blocking, later = self._wait_refs()
        later = [j for j in later if j.state != "d"]
        if later and self._bias(0.6):
            ids = [rng.choice(sorted(later, key=lambda j: j.serial)).jobid]
        if rng.random() < 0.3:
            ids.append(self._known_id())
        if rng.random() < 0.25:
            # ids the queue does not (or no longer) know, anywhere in the list
            ids.insert(rng.randrange(len(ids) + 1), rng.choice(self.config.jobids + ["no-such-job", 987654]))
        return ["send", rng.choice(sendable), "qkill", {"jobids": ids}]

    def g_wait(self, sendable, live, deadc):
        rng = self.rng
        ids = [self._known_id()]
        if rng.random() < 0.3:
            ids.append(self._known_id())
        marked = sorted([j for j in self.model.jobs.values() if j.drop], key=lambda j: j.serial)
        if self._bias(0.6):
            # first an unfinished job (the waiter blocks there), then one that is drop-marked or just any
            first = self._known_id(lambda j: j.state != "d")
            second = rng.choice(marked).jobid if marked and rng.random() < 0.7 else self._known_id()
            if second != first:
                ids = [first, second]
        pool = [n for n in sendable if n in self.config.clients] or sendable
        return ["send", rng.choice(pool), "qwait", {"jobids": ids}]

    def g_setinfo(self, sendable, live, deadc):
        rng, model = self.rng, self.model
        cid = self.sim.cid
        holders = [n for n in sendable if any(j.holder == cid(n) for j in model.jobs.values())]
        if holders and rng.random() < 0.8:
            name = rng.choice(holders)
            jid = rng.choice(sorted([j.jobid for j in model.jobs.values() if j.holder == cid(name)], key=str))
        else:
            name = rng.choice(sendable)
            jid = self._known_id()
        return ["send", name, "qsetinfo", {"jobid": jid, "info": {rng.choice(["status", "progress"]): rng.randrange(100)}}]

    def g_drop(self, sendable, live, deadc):
        return ["send", self.rng.choice(sendable), "qdrop", {"jobids": [self._known_id()]}]

    def g_info(self, sendable, live, deadc):
        return ["send", self.rng.choice(sendable), "qinfo", {"jobid": self._known_id()}]

    def g_stats(self, sendable, live, deadc):
        return ["send", self.rng.choice(sendable), "getstats", {}]

    def g_disconnect(self, sendable, live, deadc):
        rng, model = self.rng, self.model
        cid = self.sim.cid
        hot = [n for n in live if cid(n) in model.pulls or cid(n) in model.waits
               or any(j.holder == cid(n) for j in model.jobs.values())]
        if hot and rng.random() < 0.75:
            return ["disconnect", rng.choice(sorted(hot))]
        return ["disconnect", rng.choice(live)]

    def g_pipeline(self, sendable, live, deadc):
        """A client that does not wait for the answer (a heartbeat behind a long poll)."""
        rng, sim = self.rng, self.sim
        busy = [n for n in live if sim.conns[n].outstanding and sim.can_send(n, True)]
        name = rng.choice(busy)
        k = rng.choice(["setinfo", "info", "stats", "add"])
        st = getattr(self, "g_" + k)([name], live, deadc)
        return ["send", name, st[2], st[3], "pipelined"]

    def g_reset(self, sendable, live, deadc):
        st = self.g_disconnect(sendable, live, deadc)
        return ["reset", st[1]]

    def g_reconnect(self, sendable, live, deadc):
        return ["connect", self.rng.choice(deadc)]

    def g_run(self, sendable, live, deadc):
        return ["run"]

    def g_yield(self, sendable, live, deadc):
        return ["yield"]

    def g_adv(self, sendable, live, deadc):
        return ["adv", self.rng.choice([0.5, 1, 1, 2, 5, 14, 16, 30])]

    def g_tick(self, sendable, live, deadc):
        return ["tick", self.rng.choice([0.5, 1, 1, 2, 5, 15, 16])]

    def g_jump(self, sendable, live, deadc):
        return ["jump", self.rng.choice([4, 59, 121, 121, 1201, 3601, 3700, -30])]

    def g_restart(self, sendable, live, deadc):
        rng = self.rng
        dt = rng.choice([0, 0, 0, 7, 130, 1300, 4000, 100000])  # down time, some of it across deadlines, or a day
        failed = rng.choice([0, 0, 0, 1])  # start attempts that die before the server serves
        if failed:
            return ["restart", dt, failed]
        return ["restart", dt] if dt else ["restart"]

    # ---- whole runs -----------------------------------------------------------
    def generate(self):
        self.prologue()
        n = 0
        guard = 0
        while n < self.config.n_ops and guard < 1000:
            guard += 1
            st = self.gen_step()
            if self.do(st):
                n += 1
        self.do(["run"])

    def replay(self):
        for st in self.script:
            self.do(st)
        self.do(["run"])

    def epilogue(self, probe=True, drain=True):
        """After the last scripted step faults stop.  Final probes (every job's snapshot,
        stats) and the drain: fresh workers pull on all channels until the model's queued
        set is empty; every unfinished, unheld job must come out exactly once."""
        sim, model = self.sim, self.model
        self._quiesce()
        if probe:
            sim.connect("probe")
            sim.quiesce()
            for jid in sorted(model.jobs, key=str):
                sim.send("probe", "qinfo", {"jobid": jid})
                sim.quiesce()
                self._raise_pending()
                if not sim.can_send("probe"):
                    raise Violation("R-error", f"qinfo({jid!r}) got no answer")
            sim.send("probe", "getstats", {})
            sim.quiesce()
            self._raise_pending()
            model.at_quiescence()
        if drain:
            model.draining = True
            sim.connect("drain")
            sim.quiesce()
            budget = 2 * len(model.jobs) + 4
            while model.unheld() and budget > 0:
                budget -= 1
                sim.send("drain", "qpull", {"channels": []})
                sim.quiesce()
                self._raise_pending()
                model.at_quiescence()
            left = model.unheld()
            if left:
                raise Violation("I-drain", f"{len(left)} unfinished job(s) never came out of the drain: "
                                f"{[j.tag() for j in left]}")

    def _quiesce(self):
        self.sim.quiesce()
        self._end_quantum()
        self._raise_pending()
        self.model.at_quiescence()

    def _raise_pending(self):
        if self.sim.violation is not None:
            raise self.sim.violation

    def close(self):
        if not self.closed:
            self.closed = True
            self.sim.close()

    def result(self, violation=None):
        sim, model = self.sim, self.model
        return {
            "violation": violation.as_dict() if violation else None,
            "steps": self.steps,
            "choices": list(sim.random.log),
            "choice_alternatives": list(sim.random.alts),
            "digest": sim.digest.hex(),
            "events": sim.digest.n,
            "probes": dict(model.probes),
            "faults": dict(self.fault_counts),
            "quanta": self.quanta,
            "multi_event_quanta": self.multi_event_quanta,
            "states": model.state_hashes,
            "interleavings": self.interleaving_hashes,
            "sim_seconds": sim.clock.mono,
            "hub_errors": list(sim.hub_errors),
            "max_alternatives": sim.random.max_alternatives,
            "foreign_seen": dict(model.foreign_seen),
        }


class HangDetected(BaseException):
    pass


class _HangGuard:
    """A server that spins without yielding cannot be caught by step caps: one simulated
    history normally takes milliseconds; 30 s of CPU time inside one is a hang."""

    def __init__(self, seconds=30.0):
        self.seconds = seconds

    def __enter__(self):
        import signal

        def on_alarm(signum, frame):
            raise HangDetected()

        self._old = signal.signal(signal.SIGPROF, on_alarm)
        signal.setitimer(signal.ITIMER_PROF, self.seconds)  # CPU time: immune to a loaded machine
        return self

    def __exit__(self, *a):
        import signal
        signal.setitimer(signal.ITIMER_PROF, 0)
        signal.signal(signal.SIGPROF, self._old)
        return False


def _hang_violation(r):
    v = Violation("X-hang", "the queue server burnt 30 s of CPU time without yielding (busy loop) "
                  "while processing the last step")
    v.step_index = len(r.steps)
    return v


def _startup_failure(e):
    from .kernel import Digest
    e.step_index = 0
    return {"violation": e.as_dict(), "steps": [], "choices": [], "choice_alternatives": [], "digest": Digest().hex(),
            "events": 0, "probes": {}, "faults": {"server-does-not-start": 1}, "quanta": 0, "multi_event_quanta": 0,
            "states": set(), "interleavings": set(), "sim_seconds": 0.0, "hub_errors": [], "max_alternatives": 0,
            "foreign_seen": {}}


def run_generated(data_dir, seed_rng, config, run_cls=QsRun, **kw):
    try:
        r = run_cls(data_dir, rng=seed_rng, config=config, **kw)
    except Violation as e:
        return _startup_failure(e)
    v = None
    try:
        try:
            with _HangGuard():
                r.generate()
                r.epilogue()
        except Violation as e:
            e.step_index = len(r.steps)
            v = e
        except HangDetected:
            v = _hang_violation(r)
        return r.result(v)
    finally:
        r.close()


def run_script(data_dir, script, choices, run_cls=QsRun, epilogue=True, **kw):
    try:
        r = run_cls(data_dir, script=script, choices=choices, **kw)
    except Violation as e:
        return _startup_failure(e)
    v = None
    try:
        try:
            with _HangGuard(8.0):
                r.replay()
                if epilogue:
                    r.epilogue()
        except Violation as e:
            e.step_index = len(r.steps)
            v = e
        except HangDetected:
            v = _hang_violation(r)
        return r.result(v)
    finally:
        r.close()


def minimise(data_dir, steps, choices, cls, run_cls=QsRun, budget=300, **kw):
    """ddmin over the step list; a candidate is kept iff a fresh simulation fails with the
    same violation class.  Scripted choices are re-recorded from the minimised run."""

    def fails(cand):
        res = run_script(data_dir, cand, choices, run_cls=run_cls, **kw)
        return res["violation"] is not None and res["violation"]["class"] == cls

    if not fails(steps):
        return steps, choices, None
    small = ddmin(steps, fails, budget=budget)
    # argument simplification: drop optional args, lower priorities
    changed = True
    tries = 0
    while changed and tries < 60:
        changed = False
        for i, st in enumerate(small):
            if st[0] != "send":
                continue
            args = st[3]
            for k in ("payload", "priority", "wait", "result"):
                if k in args and not (k == "wait"):
                    cand_args = {x: y for x, y in args.items() if x != k}
                    cand = small[:i] + [[st[0], st[1], st[2], cand_args]] + small[i + 1:]
                    tries += 1
                    if fails(cand):
                        small = cand
                        changed = True
                        break
            if changed:
                break
    res = run_script(data_dir, small, choices, run_cls=run_cls, **kw)
    return small, res["choices"], res
