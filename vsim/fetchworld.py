"""The fetch world (C11): the whole fetcher (make_nuwiki -> StartFetcher -> MwApi ->
Fetcher -> FsOutput) in virtual time against the synthetic wiki of vsim.wiki.

Every HTTP request and every sleep parks its greenlet on the simulator; the driver
releases exactly one parked item per step (earliest virtual time first, ties by sequence
number) and runs the system to quiescence.  Latencies come from the run's PRNG (or from a
recorded list on replay), so one seed is one exactly repeatable interleaving."""

import heapq
import json
import os
import sys
from urllib import parse

import gevent
import gevent.event

from . import vtimer
from .kernel import Digest, HarnessError, Violation
from .wiki import World

_INSTALLED = {}


class SimTime:
    """Stands in for the `time` module inside sapi and fetch."""

    def __init__(self, sim):
        self._sim = sim

    def time(self):
        return 1_700_000_000.0 + self._sim.now

    def monotonic(self):
        return self._sim.now

    def sleep(self, seconds):
        self._sim.park("sleep", max(0.0, float(seconds)), None)


class _Fire:
    """Adapter: a heap entry whose release calls a function instead of setting a result."""

    def __init__(self, fn):
        self.fn = fn

    def set(self, result):
        self.fn()


class DummyHttpClient:
    def __init__(self):
        self.headers = {}
        self.auth = None


class FetchSim:
    def __init__(self, world, rng=None, latencies=None, config=None):
        self.world = world
        self.rng = rng
        self.script = list(latencies) if latencies is not None else None
        self.used_latencies = []
        self.config = config or {}
        self.now = 0.0
        self.seq = 0
        self.heap = []
        self.digest = Digest()
        self.steps = 0
        self.max_pending = 0
        self.counters = {}
        self.hub_errors = []
        self.fsouts = []
        self.interleave_sig = []

    def count(self, k, n=1):
        self.counters[k] = self.counters.get(k, 0) + n

    # ---- latency -----------------------------------------------------------------------
    def draw_latency(self, klass):
        if self.script is not None:
            i = len(self.used_latencies)
            lat = self.script[i] if i < len(self.script) else 0.05
        else:
            c = self.config
            mode = c.get("latency", "uniform")
            if mode == "constant":
                lat = 0.05
            elif mode == "uniform":
                lat = self.rng.uniform(0.01, 0.5)
            else:
                lat = min(50.0, self.rng.paretovariate(1.2) * 0.02)
            if self.rng.random() < c.get("p_stall", 0.0):
                lat = self.rng.uniform(100.0, 1000.0)
                self.count("stalled-response")
            lat = round(lat, 4)
        self.used_latencies.append(lat)
        return lat

    # ---- parking / release -----------------------------------------------------------------
    def park(self, kind, delay, result, label=None):
        ev = gevent.event.AsyncResult()
        self.seq += 1
        heapq.heappush(self.heap, (self.now + delay, self.seq, kind, label, ev, result))
        if len(self.heap) > self.max_pending:
            self.max_pending = len(self.heap)
        out = ev.get()
        if isinstance(out, BaseException):
            raise out
        return out

    def schedule_timer(self, after, fire):
        """gevent timers created by the SUT (gevent.sleep, Timeout, wait(timeout)) live on the
        same virtual-time heap as the parked requests."""
        self.seq += 1
        heapq.heappush(self.heap, (self.now + after, self.seq, "gevent-timer", None, _Fire(fire), None))

    def count_timer_fired(self):
        self.count("gevent-timer-fired")

    def release_next(self):
        """Release the earliest parked item and, with it, everything due within the
        configured arrival window: several responses arriving in one scheduling quantum
        make several greenlets runnable at once (hub FIFO order = release order)."""
        window = self.config.get("window", 0.0)
        first = None
        n = 0
        while self.heap and (first is None or self.heap[0][0] <= first + window) and n < 64:
            t, seq, kind, label, ev, result = heapq.heappop(self.heap)
            if first is None:
                first = t
            if t > self.now:
                self.now = t
            self.digest.add(self.steps, kind, label, round(t, 4))
            self.interleave_sig.append((kind, label))
            ev.set(result)
            n += 1
        if n > 1:
            self.count("multi-arrival-quantum")
            self.count("arrivals-in-multi-quanta", n)

    # ---- the HTTP seam ---------------------------------------------------------------------
    def http(self, api, method, url, data):
        site = self.world.site_for(url)
        if method == "POST":
            params = dict(parse.parse_qsl(data.decode() if isinstance(data, bytes) else (data or ""), keep_blank_values=True))
        else:
            params = dict(parse.parse_qsl(parse.urlsplit(url).query, keep_blank_values=True))
        klass = params.get("action", "?") + ":" + (params.get("prop") or params.get("meta") or "")
        self.count("http-requests")
        self.count("req:" + klass)
        if site is None:
            import httpx
            req = httpx.Request(method, url)
            err = httpx.HTTPStatusError("404", request=req, response=httpx.Response(404, request=req))
            self.count("http-404")
            return self.park("http", self.draw_latency("404"), err, label="404 " + parse.urlsplit(url).path)
        resp = site.handle(params)
        if "query-continue" in resp:
            self.count("continuation-forced")
        body = json.dumps(resp).encode("utf-8")
        label = f"{site.host.split('.')[0]} {klass} {params.get('titles') or params.get('revids') or params.get('page') or params.get('oldid') or params.get('title') or ''}"[:90]
        return self.park("http", self.draw_latency(klass), body, label=label)

    # ---- download client ----------------------------------------------------------------------
    def download_client(self, url):
        sim = self

        class Resp:
            def __init__(self, body):
                self.body = body
                self.status_code = 200 if body is not None else 404

            def raise_for_status(self):
                if self.body is None:
                    import httpx
                    req = httpx.Request("GET", url)
                    raise httpx.HTTPStatusError("404", request=req, response=httpx.Response(404, request=req))

            def iter_bytes(self, chunk_size=16384):
                cs = sim.config.get("chunk_size", 16384)
                for off in range(0, len(self.body), cs):
                    sim.park("chunk", sim.draw_latency("chunk"), None, label=parse.urlsplit(url).path[-30:])
                    yield self.body[off:off + cs]

            def __enter__(self):
                return self

            def __exit__(self, *a):
                return False

        class Client:
            def stream(self, method, u):
                body = sim.world.image_bytes(u)
                sim.count("downloads")
                sim.world.downloads.append(u)
                sim.park("http", sim.draw_latency("download"), None, label="GET " + parse.urlsplit(u).path[-30:])
                return Resp(body)

        return Client()


def install(sim, keep_state=False):
    """Replace the seams (all existing module attributes / methods).  keep_state: this fetch runs in a
    process that has fetched before - whatever the SUT keeps at module / class level stays."""
    from mwlib.network import fetch, sapi
    from mwlib.network.http_client import HttpClientManager
    from mwlib.utils import conf
    if not _INSTALLED:
        _INSTALLED.update(send=sapi.MwApi._send_http_request, get_client=HttpClientManager.get_client,
                          dl=fetch._get_download_client, sapi_time=sapi.time, fetch_time=fetch.time,
                          sapi_random=sapi.random, FsOutput=fetch.FsOutput, stdout=sys.stdout)

    def _send(self, method, url, data, request_headers):
        return sim.http(self, method, url, data)

    sapi.MwApi._send_http_request = _send
    HttpClientManager.get_client = lambda self, *a, **kw: DummyHttpClient()
    fetch._get_download_client = lambda url: sim.download_client(url)
    st = SimTime(sim)
    sapi.time = st
    fetch.time = st

    class FixedRandom:
        @staticmethod
        def uniform(a, b):
            return (a + b) / 2.0

    sapi.random = FixedRandom

    class RecordingFsOutput(_INSTALLED["FsOutput"]):
        def __init__(self, path):
            _INSTALLED["FsOutput"].__init__(self, path)
            sim.fsouts.append(self)

    fetch.FsOutput = RecordingFsOutput
    # per-run state the SUT keeps at module / class level
    if not keep_state:
        for obj, name in ((fetch.Fetcher, "titles_pending_contributor_lookup"), (fetch.Fetcher, "title_mapping"),
                          (fetch, "_download_rate_limiter"), (fetch, "_download_rate_limiter_rps"),
                          (sapi.MwApi, "_rate_limiters"), (sapi.MwApi, "_rate_limiter_rps"), (sapi.MwApi, "_token_info"),
                          (HttpClientManager, "_clients")):
            c = getattr(obj, name, None)
            if hasattr(c, "clear"):
                c.clear()
        sapi.MwApi.request_counter = 0
    if not conf.config.has_section("fetch"):
        conf.config.add_section("fetch")
    for k in ("api_request_limit", "api_result_limit", "rvlimit", "max_connections", "max_requests_per_second", "max_retry_count"):
        conf.config.remove_option("fetch", k)
    for k, v in sim.config.get("conf", {}).items():
        conf.config["fetch"][k] = str(v)
    hub = gevent.get_hub()
    sim._real_loop = vtimer.install(sim)
    sim._saved_handle_error = hub.__dict__.get("handle_error")

    def handle_error(context, etype, value, tb):
        if etype is not None and issubclass(etype, gevent.GreenletExit):
            return
        sim.hub_errors.append((getattr(etype, "__name__", str(etype)), str(value)[:160]))

    hub.handle_error = handle_error


def uninstall(sim):
    from mwlib.network import fetch, sapi
    from mwlib.network.http_client import HttpClientManager
    sapi.MwApi._send_http_request = _INSTALLED["send"]
    HttpClientManager.get_client = _INSTALLED["get_client"]
    fetch._get_download_client = _INSTALLED["dl"]
    sapi.time = _INSTALLED["sapi_time"]
    fetch.time = _INSTALLED["fetch_time"]
    sapi.random = _INSTALLED["sapi_random"]
    fetch.FsOutput = _INSTALLED["FsOutput"]
    vtimer.uninstall(sim._real_loop)
    hub = gevent.get_hub()
    if sim._saved_handle_error is None:
        hub.__dict__.pop("handle_error", None)
    else:
        hub.handle_error = sim._saved_handle_error


def build_metabook(spec):
    from mwlib.core import metabook as mb
    from .wiki import LOCAL_HOST
    c = mb.Collection()
    c.wikis = [mb.WikiConf(ident=None, baseurl=f"http://{LOCAL_HOST}/w/")]
    cur = None
    for it in spec["metabook"]:
        rev = it["rev"]
        if rev is not None and spec.get("revs_as_str"):
            rev = str(rev)  # JSON metabooks and collection pages carry revision ids as strings
        art = mb.Article(title=it["title"], revision=rev)
        if it.get("chapter"):
            if cur is None or cur.title != it["chapter"]:
                cur = mb.Chapter(title=it["chapter"], items=[])
                c.items.append(cur)
            cur.items.append(art)
        else:
            cur = None
            c.items.append(art)
    return c


def close_dbs(objs):
    for o in objs:
        for name in ("authors", "html", "imageinfo"):
            db = getattr(o, name, None)
            d = getattr(db, "database", db)
            try:
                if d is not None and hasattr(d, "close"):
                    d.close()
            except Exception:  # noqa: BLE001
                pass


def run_fetch(spec, fsdir, rng=None, latencies=None, config=None, step_cap=20000, vtime_cap=2.0e6):
    """One complete simulated fetch + oracle.  Returns a result dict (violation or None)."""
    from mwlib.apps.make_nuwiki import make_nuwiki
    t0, keep = 0.0, False
    if (config or {}).get("prior_fetch"):
        # configuration "the process has fetched before": the same book is fetched once, quietly
        # (constant latencies, result not judged), and everything the SUT keeps at module or
        # class level is left as it is for the fetch that is judged
        pc = dict(config, prior_fetch=False, latency="constant", p_stall=0.0, window=-1.0)
        pr = run_fetch(spec, fsdir + "-prior", rng=None, latencies=[], config=pc, step_cap=step_cap, vtime_cap=vtime_cap)
        import shutil
        shutil.rmtree(fsdir + "-prior", ignore_errors=True)
        t0, keep = pr["sim_seconds"] + 1000.0, True
    world = World(spec)
    sim = FetchSim(world, rng=rng, latencies=latencies, config=config)
    sim.now = t0
    if keep:
        sim.count("config:process-has-fetched-before")
    install(sim, keep_state=keep)
    violation = None
    outcome = {}
    devnull = open(os.devnull, "w")
    saved_stdout = sys.stdout
    sys.stdout = devnull
    try:
        mbook = build_metabook(spec)
        opts = {"script_extension": ".php", "imagesize": (config or {}).get("imagesize", 800),
                "noimages": bool((config or {}).get("noimages")), "username": None, "password": None, "domain": None}

        def target():
            try:
                make_nuwiki(fsdir=fsdir, metabook=mbook, wiki_options=opts, pod_client=None, status=None)
                outcome["ok"] = True
            except gevent.GreenletExit:
                raise
            except BaseException as e:  # noqa: BLE001
                import traceback
                outcome["error"] = f"{type(e).__name__}: {e}"
                outcome["tb"] = traceback.format_exc()[-1200:]

        g = gevent.spawn(target)
        import signal

        class HangDetected(BaseException):
            pass

        def on_alarm(signum, frame):
            outcome["hang"] = True
            raise HangDetected()

        # "fetching terminates": a fetcher that spins without ever yielding cannot be caught by
        # the step cap; 30 s of CPU time for one simulated fetch (normally ~0.2 s) is a hang
        old_handler = signal.signal(signal.SIGPROF, on_alarm)
        signal.setitimer(signal.ITIMER_PROF, float((config or {}).get("hang_after_s", 30)))  # CPU time of this process: immune to a loaded machine
        try:
            while True:
                gevent.idle()
                if g.dead:
                    break
                if not sim.heap:
                    violation = Violation("T-term", "fetch does not terminate: the fetcher is alive, nothing is runnable "
                                          "and no request, download or sleep is pending (simulated deadlock) after "
                                          f"{sim.steps} steps")
                    break
                if sim.steps >= step_cap or sim.now - t0 > vtime_cap:
                    violation = Violation("T-term", f"fetch still running after {sim.steps} steps / {sim.now - t0:.0f} virtual seconds")
                    break
                sim.steps += 1
                sim.release_next()
        except HangDetected:
            pass
        finally:
            signal.setitimer(signal.ITIMER_PROF, 0)
            signal.signal(signal.SIGPROF, old_handler)
            if not g.dead:
                g.kill(block=False)
                gevent.idle()
            # nothing of this run may stay parked or runnable
            for item in sim.heap:
                pass
        if outcome.get("hang"):
            violation = Violation("T-term", "fetch does not terminate: the fetcher burnt 30 s of CPU time "
                                  "without yielding (busy loop) in a simulated fetch that normally takes a fraction of a second")
        if violation is None and "error" in outcome:
            violation = Violation("T-term", f"make_nuwiki raised {outcome['error']}", detail={"tb": outcome.get("tb")})
        if violation is None:
            try:
                check_archive(world, fsdir, config or {}, sim)
            except Violation as v:
                violation = v
            except Exception as e:  # noqa: BLE001
                # the archive is read back through mwlib's own reader (nuwiki.Adapt): if that fails, what the
                # archive "holds" cannot be had
                import traceback
                violation = Violation("T-read", f"the archive cannot be read back: {type(e).__name__}: {e}",
                                      detail={"tb": traceback.format_exc()[-1500:]})
    finally:
        sys.stdout = saved_stdout
        devnull.close()
        close_dbs(sim.fsouts)
        uninstall(sim)
    from .kernel import stable_hash
    return {"violation": violation.as_dict() if violation else None, "digest": sim.digest.hex(), "steps": sim.steps,
            "sim_seconds": sim.now - t0, "latencies": sim.used_latencies, "counters": sim.counters,
            "hub_errors": sim.hub_errors, "max_pending": sim.max_pending,
            "interleaving": stable_hash(sim.interleave_sig)}


# --------------------------------------------------------------------------------------- oracle
def check_archive(world, fsdir, config, sim):
    from mwlib.core import nuwiki
    exp = world.expected()
    w = nuwiki.Adapt(fsdir)
    try:
        _check(world, w, exp, config, sim)
    finally:
        close_dbs([w.nuwiki])


def _check(world, w, exp, config, sim):
    local = world.local
    noimages = bool(config.get("noimages"))
    for a in exp["articles"]:
        what = f"article {a['title']!r}" + (f" rev {a['rev']}" if a["rev"] is not None else "")
        fq = w.nshandler.get_fqname(a["title"])
        page = w.get_page(fq, a["rev"])
        if page is None:
            raise Violation("T-text", f"{what} is not in the archive")
        if page.rawtext != a["text"]:
            raise Violation("T-text", f"{what}: archive text differs from what the wiki serves "
                            f"(archive {page.rawtext[:60]!r}..., wiki {a['text'][:60]!r}...)")
        sim.count("oracle:article-checked")
        if a.get("via_redirect"):
            sim.count("oracle:article-via-redirect")
        if a["rev"] is not None:
            sim.count("oracle:article-pinned-revision")
        # contributors
        want = local.reported_authors(a["authors_of"])
        got = w.get_authors(a["title"], a["rev"])
        if (got or []) != (want or []):
            raise Violation("T-auth", f"{what}: archive lists contributors {got!r}, the wiki reports {want!r}")
        sim.count("oracle:authors-checked")
        if want and any(x.startswith("ANONIPEDITS") and not x.endswith(":0") for x in want):
            sim.count("oracle:authors-with-anon")
    # no stored page has a text the wiki never served
    served = local.served_texts | world.commons.served_texts
    for key, page in w.nuwiki.revisions.items():
        if page.rawtext not in served:
            raise Violation("T-text", f"archive record {key!r} holds a text the wiki never served: {page.rawtext[:80]!r}")
    sim.count("oracle:records-checked", len(w.nuwiki.revisions))
    if noimages:
        sim.count("oracle:noimages-run")
        return
    for img, rec in exp["images"].items():
        what = f"image {img!r} ({rec['where']})"
        path = w.get_disk_path(img)
        if path is None or not os.path.exists(path):
            raise Violation("T-img", f"{what}: the archive has no image file")
        data = open(path, "rb").read()
        if data != rec["bytes"]:
            raise Violation("T-img", f"{what}: image file has {len(data)} bytes, the wiki served {len(rec['bytes'])}")
        info = w.nuwiki.imageinfo.get(img) if hasattr(w.nuwiki.imageinfo, "get") else None
        if not info or not info.get("thumburl"):
            raise Violation("T-img", f"{what}: the archive has no image metadata")
        dp = w.get_image_description_page(img)
        if dp is None:
            raise Violation("T-img", f"{what}: the archive has no description page")
        if dp.rawtext != rec["desc"]:
            raise Violation("T-img", f"{what}: description page differs from the one served")
        got = w.get_authors(img)
        if (got or []) != (rec["authors"] or []):
            raise Violation("T-auth", f"{what}: archive lists contributors {got!r}, the wiki reports {rec['authors']!r}")
        sim.count("oracle:image-checked")
        sim.count("oracle:image-" + rec["where"])
    # no image file downloaded twice
    seen = set()
    for u in world.downloads:
        if u in seen:
            sim.count("probe:image-downloaded-twice")  # wasteful, but not against the property
        seen.add(u)
