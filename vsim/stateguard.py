"""Per-run isolation of process-global state in the SUT.

Many simulated runs share one interpreter.  Module-level containers, class-level
containers and mutable default arguments of the SUT survive from one run to the next; a
bug that parks state there would make a run depend on its predecessors (and a violation
impossible to replay).  The guard snapshots those containers once, right after import, and
restores them IN PLACE before every run."""

import copy
import types

_CONTAINERS = (dict, list, set)


class StateGuard:
    def __init__(self, modules):
        self.slots = []  # (container object, deep copy of its initial content)
        seen = set()

        def plain(x, depth=0):
            """Only plain data is guarded: containers of containers of scalars."""
            if depth > 6:
                return False
            if x is None or isinstance(x, (str, bytes, int, float, bool)):
                return True
            if type(x) in (list, tuple, set, frozenset):
                return all(plain(y, depth + 1) for y in x)
            if type(x) is dict:
                return all(plain(k, depth + 1) and plain(v, depth + 1) for k, v in x.items())
            return False

        def add(obj):
            if type(obj) in _CONTAINERS and id(obj) not in seen and plain(obj):
                try:
                    snap = copy.deepcopy(obj)
                except Exception:  # noqa: BLE001 - not copyable (locks, modules): leave it alone
                    return
                seen.add(id(obj))
                self.slots.append((obj, snap))

        def add_function(fn):
            for d in (getattr(fn, "__defaults__", None) or ()):
                add(d)
            for d in (getattr(fn, "__kwdefaults__", None) or {}).values():
                add(d)

        for mod in modules:
            for name, val in list(vars(mod).items()):
                if name.startswith("__"):
                    continue
                if isinstance(val, _CONTAINERS):
                    add(val)
                elif isinstance(val, types.FunctionType) and val.__module__ == mod.__name__:
                    add_function(val)
                elif isinstance(val, type) and val.__module__ == mod.__name__:
                    for an, av in list(vars(val).items()):
                        if an.startswith("__"):
                            continue
                        if isinstance(av, _CONTAINERS):
                            add(av)
                        f = av.__func__ if isinstance(av, (staticmethod, classmethod)) else av
                        if isinstance(f, types.FunctionType):
                            add_function(f)

    def restore(self):
        dirty = 0
        for obj, snap in self.slots:
            if obj != snap:
                dirty += 1
                if isinstance(obj, dict):
                    obj.clear()
                    obj.update(copy.deepcopy(snap))
                elif isinstance(obj, list):
                    obj[:] = copy.deepcopy(snap)
                else:
                    obj.clear()
                    obj.update(copy.deepcopy(snap))
        return dirty
