"""./check selftest determinism | sensitivity [ids...]

determinism: many seeds per property, twice each: fresh interpreters, different worker
  counts, different PYTHONHASHSEED, different predecessor runs; per-run digests diffed.
sensitivity: apply one mutation at a time to a scratch copy of /repo/src (outside /repo
  and /verif), run the quick check against the copy, expect exit 1; remove the copy."""

import json
import os
import shutil
import subprocess
import sys
import tempfile
import time

from . import kernel
from .kernel import VERIF_ROOT, eprint

PY = "/venv/bin/python"


def _load_mutants():
    return kernel.read_json(os.path.join(VERIF_ROOT, "mutants.json"))["mutants"]


def make_copy():
    root = tempfile.mkdtemp(prefix="vsim-mutant-", dir=kernel.scratch_root())
    shutil.copytree(os.path.join(kernel.REPO, "src"), os.path.join(root, "src"),
                    ignore=shutil.ignore_patterns("__pycache__", "*.egg-info"))
    return root


def apply_mutant(root, m):
    for ed in m["edits"]:
        p = os.path.join(root, "src", ed["file"])
        s = open(p).read()
        if s.count(ed["old"]) < 1:
            raise kernel.HarnessError(f"mutant {m['id']}: pattern not found in {ed['file']}")
        s = s.replace(ed["old"], ed["new"], 1 if not ed.get("all") else -1)
        open(p, "w").write(s)


def run_check_against(root, prop, budget, seed=0, tier="quick"):
    out = os.path.join(root, "out")
    os.makedirs(out, exist_ok=True)
    env = dict(os.environ)
    env["PYTHONPATH"] = os.path.join(root, "src")
    env["VERIF_OUT"] = out
    env["VERIF_BUDGET_S"] = str(budget)
    env["VERIF_SEED"] = str(seed)
    env["VERIF_SRC"] = os.path.join(root, "src")
    t = time.monotonic()
    p = subprocess.run([os.path.join(VERIF_ROOT, "check"), prop, "--tier", tier], env=env,
                       stdout=subprocess.PIPE, stderr=subprocess.STDOUT, text=True, timeout=budget * 4 + 300)
    return p.returncode, p.stdout, time.monotonic() - t


def sensitivity(argv):
    only = set(a for a in argv if not a.startswith("-"))
    budget = float(os.environ.get("VERIF_SELFTEST_BUDGET_S", "25"))
    rows = []
    bad = 0
    for m in _load_mutants():
        if only and m["id"] not in only and m["property"] not in only:
            continue
        root = make_copy()
        try:
            apply_mutant(root, m)
            rc, out, dt = run_check_against(root, m["property"], budget)
            lines = [l for l in out.splitlines() if l.startswith("VIOLATION") or l.startswith("  class=")]
            summary = [l for l in out.splitlines() if l.startswith(m["property"] + " ")]
            detected = rc == 1
            if not detected:
                bad += 1
            rows.append({"id": m["id"], "property": m["property"], "detected": detected, "rc": rc,
                         "first": lines[1].strip()[:160] if len(lines) > 1 else "", "wall_s": round(dt, 1),
                         "summary": summary[-1] if summary else out[-300:]})
            print(f"{'DETECTED' if detected else 'MISSED  '} {m['property']} {m['id']:<40} rc={rc} {dt:5.1f}s "
                  f"{lines[1].strip()[:110] if len(lines) > 1 else (out.strip().splitlines() or [''])[-1][:110]}", flush=True)
        finally:
            shutil.rmtree(root, ignore_errors=True)
    if not only:
        kernel.write_json(os.path.join(VERIF_ROOT, "selftest_sensitivity.json"), {"rows": rows, "missed": bad})
    print(f"sensitivity: {len(rows) - bad}/{len(rows)} mutants detected")
    return 0 if bad == 0 else 1


def seeded(argv):
    """Run the quick checks against every kept sub-agent change in /verif/seeded/<id>/
    (patch.diff applied to a scratch copy of /repo/src): each must be detected by the check
    of the property it breaks."""
    only = set(a for a in argv if not a.startswith("-"))
    budget = float(os.environ.get("VERIF_SELFTEST_BUDGET_S", "45"))
    base = os.path.join(VERIF_ROOT, "seeded")
    rows, bad = [], 0
    for sid in sorted(os.listdir(base)) if os.path.isdir(base) else []:
        meta_p = os.path.join(base, sid, "meta.json")
        if not os.path.exists(meta_p) or (only and not any(sid == o or sid.startswith(o + "-") for o in only)):
            continue
        meta = kernel.read_json(meta_p)
        root = make_copy()
        try:
            p = subprocess.run(["patch", "-p1", "-s", "-d", root, "-i", os.path.join(base, sid, "patch.diff")],
                               stdout=subprocess.PIPE, stderr=subprocess.STDOUT, text=True)
            if p.returncode != 0:
                print(f"ERROR    {sid}: patch does not apply: {p.stdout[-200:]}")
                bad += 1
                continue
            detected_by = []
            first = ""
            for prop in meta.get("checks", [meta["property"]]):
                rc, out, dt = run_check_against(root, prop, budget)
                lines = [l for l in out.splitlines() if l.startswith("  class=")]
                if rc == 1:
                    detected_by.append(prop)
                    first = first or (lines[0].strip()[:150] if lines else "")
                elif rc != 0:
                    first = first or f"rc={rc} " + out.strip().splitlines()[-1][:120]
            ok = meta["property"] in detected_by
            if not ok and meta.get("expected") == "not_detected":
                rows.append({"id": sid, "property": meta["property"], "detected_by": detected_by, "documented_miss": meta.get("why_not_detected", "")})
                print(f"KNOWN-MISS {meta['property']} {sid:<43} {meta.get('why_not_detected', '')[:120]}", flush=True)
                continue
            if not ok:
                bad += 1
            rows.append({"id": sid, "property": meta["property"], "detected_by": detected_by, "first": first})
            print(f"{'DETECTED' if ok else 'MISSED  '} {meta['property']} {sid:<44} by={','.join(detected_by) or '-'} {first}", flush=True)
        finally:
            shutil.rmtree(root, ignore_errors=True)
    path = os.path.join(VERIF_ROOT, "selftest_seeded.json")
    if not only:
        kernel.write_json(path, {"rows": rows, "missed": bad})
    elif os.path.exists(path) and not os.environ.get("VERIF_OUT"):
        # a filtered run updates the rows it re-ran in the record of the last full one
        old = kernel.read_json(path)
        byid = {r["id"]: r for r in old.get("rows", [])}
        for r in rows:
            byid[r["id"]] = r
        merged = [byid[k] for k in sorted(byid)]
        missed = sum(1 for r in merged if "documented_miss" not in r and r["property"] not in r.get("detected_by", []))
        kernel.write_json(path, {"rows": merged, "missed": missed, "note": "rows of filtered re-runs are merged into the last full run"})
    known = sum(1 for r in rows if "documented_miss" in r)
    print(f"seeded: {len(rows) - bad - known}/{len(rows)} kept changes detected, {known} documented miss(es), {bad} missed")
    return 0 if bad == 0 else 1


def benign(argv):
    """False-alarm test: property-preserving changes kept in /verif/benign/<id>/ (patch.diff,
    meta.json with the checks to run) are applied to a scratch copy; every listed check must
    exit 0."""
    only = set(a for a in argv if not a.startswith("-"))
    budget = float(os.environ.get("VERIF_SELFTEST_BUDGET_S", "30"))
    base = os.path.join(VERIF_ROOT, "benign")
    rows, bad = [], 0
    for sid in sorted(os.listdir(base)) if os.path.isdir(base) else []:
        meta_p = os.path.join(base, sid, "meta.json")
        if not os.path.exists(meta_p) or (only and not any(sid == o or sid.startswith(o + "-") for o in only)):
            continue
        meta = kernel.read_json(meta_p)
        root = make_copy()
        try:
            p = subprocess.run(["patch", "-p1", "-s", "-d", root, "-i", os.path.join(base, sid, "patch.diff")],
                               stdout=subprocess.PIPE, stderr=subprocess.STDOUT, text=True)
            if p.returncode != 0:
                print(f"ERROR    {sid}: patch does not apply: {p.stdout[-200:]}")
                bad += 1
                continue
            alarms = []
            for prop in meta["checks"]:
                rc, out, dt = run_check_against(root, prop, budget)
                if rc != 0:
                    lines = [l for l in out.splitlines() if l.startswith("  class=") or "HARNESS-ERROR" in l]
                    alarms.append(f"{prop}: rc={rc} {(lines[0].strip() if lines else out.strip().splitlines()[-1])[:160]}")
            if alarms:
                bad += 1
            rows.append({"id": sid, "checks": meta["checks"], "alarms": alarms})
            print(f"{'QUIET   ' if not alarms else 'ALARM   '} {sid:<46} checks={','.join(meta['checks'])} {' | '.join(alarms)}", flush=True)
        finally:
            shutil.rmtree(root, ignore_errors=True)
    if not only:
        kernel.write_json(os.path.join(VERIF_ROOT, "selftest_benign.json"), {"rows": rows, "false_alarms": bad})
    print(f"benign: {len(rows) - bad}/{len(rows)} property-preserving changes pass all their checks")
    return 0 if bad == 0 else 1


def main(argv):
    if not argv:
        eprint("usage: check selftest determinism|sensitivity [ids]")
        return 2
    if argv[0] == "sensitivity":
        return sensitivity(argv[1:])
    if argv[0] == "benign":
        return benign(argv[1:])
    if argv[0] == "seeded":
        return seeded(argv[1:])
    if argv[0] == "determinism":
        from . import selftest_det
        return selftest_det.main(argv[1:])
    return 2
