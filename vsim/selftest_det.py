"""./check selftest determinism [props...]

Runs each check's quick tier twice over the same run indices - in fresh interpreters, with
different worker counts (so every run has different predecessor runs in its process), and
for the qs-world checks under a different PYTHONHASHSEED - with VERIF_DIGEST_DUMP set, and
diffs the per-run event-log digests."""

import glob
import os
import shutil
import subprocess
import tempfile

from . import kernel
from .kernel import VERIF_ROOT

CONFIGS = {
    # prop: (max_runs, [(workers, hashseed_base), ...])
    "C16": (4000, [(16, 0), (5, 7), (1, 12345)]),
    "C17": (4000, [(16, 0), (5, 7), (1, 12345)]),
    "C18": (3000, [(16, 0), (3, 99)]),
    "C19": (3000, [(16, 0), (5, 7)]),
    "C20": (48, [(16, 0), (4, 31)]),
    "C11": (600, [(16, 0), (8, 0), (4, 0)]),
}


def run(prop, max_runs, workers, hashseed, out):
    env = dict(os.environ)
    env.update({"VERIF_MAX_RUNS": str(max_runs), "VERIF_WORKERS": str(workers), "VERIF_HASHSEED_BASE": str(hashseed),
                "VERIF_DIGEST_DUMP": os.path.join(out, "digests"), "VERIF_OUT": out, "VERIF_BUDGET_S": "600"})
    p = subprocess.run([os.path.join(VERIF_ROOT, "check"), prop], env=env, stdout=subprocess.PIPE,
                       stderr=subprocess.STDOUT, text=True, timeout=3000)
    d = {}
    for f in glob.glob(os.path.join(out, "digests.*")):
        for line in open(f):
            k, v = line.rsplit(" ", 1)
            if k in d and d[k] != v.strip():
                return p.returncode, None, f"run {k} has two digests inside one execution"
            d[k] = v.strip()
    return p.returncode, d, p.stdout[-400:]


def main(argv):
    props = [a for a in argv if a in CONFIGS] or list(CONFIGS)
    bad = 0
    rows = []
    for prop in props:
        max_runs, cfgs = CONFIGS[prop]
        base = None
        for workers, hs in cfgs:
            out = tempfile.mkdtemp(prefix=f"vsim-det-{prop}-", dir=kernel.scratch_root())
            try:
                rc, d, tail = run(prop, max_runs, workers, hs, out)
            finally:
                shutil.rmtree(out, ignore_errors=True)
            if d is None or rc not in (0,):
                print(f"DETERMINISM {prop} workers={workers} hashseed={hs}: check exited {rc}: {tail}")
                bad += 1
                continue
            if base is None:
                base = d
                print(f"determinism {prop}: baseline workers={workers} hashseed_base={hs}: {len(d)} runs", flush=True)
                continue
            common = set(base) & set(d)
            diff = [k for k in common if base[k] != d[k]]
            rows.append({"property": prop, "workers": workers, "hashseed_base": hs, "runs_compared": len(common), "mismatches": len(diff)})
            print(f"determinism {prop}: workers={workers} hashseed_base={hs}: compared {len(common)} runs, "
                  f"{len(diff)} mismatches {diff[:5]}", flush=True)
            if diff or len(common) < min(len(base), len(d)) // 2:
                bad += 1
    kernel.write_json(os.path.join(VERIF_ROOT, "selftest_determinism.json"), {"rows": rows, "failures": bad})
    print("determinism:", "OK" if bad == 0 else f"{bad} FAILURES")
    return 0 if bad == 0 else 1
