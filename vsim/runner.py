"""Parent/worker process model shared by all checks (DESIGN.md 2.5).

Parent:  ./check <ID> --tier quick|thorough
  starts N worker interpreters (subprocess, not multiprocessing), each with a disjoint
  share of the run indices, a wall-clock watchdog, collects their result files, merges
  the statistics, writes the evidence file, prints VIOLATION / KNOWN-FINDING lines.
Exit codes: 0 held, 1 violation, 2 harness error (never 0 after a wall-clock kill).
"""

import importlib
import json
import os
import re
import shutil
import subprocess
import sys
import tempfile
import time
import traceback

from . import kernel
from .kernel import VERIF_ROOT, eprint, read_json, write_json

PY = "/venv/bin/python"
PROPS = {
    "C16": "vsim.c16", "C17": "vsim.c17", "C18": "vsim.c18", "C19": "vsim.c19",
    "C11": "vsim.c11", "C20": "vsim.c20",
}


def out_root():
    """Where evidence/ and replays/ go: /verif, unless a self-test redirects them."""
    return os.environ.get("VERIF_OUT") or VERIF_ROOT


def load_known():
    p = os.path.join(VERIF_ROOT, "known_findings.json")
    if not os.path.exists(p):
        return {"findings": [], "fixed": []}
    return read_json(p)


def match_known(prop, violation, known=None):
    """Return the known-finding entry this violation matches, else None.  A finding is
    identified by property + violation class + a regex over the minimised message (the
    specific call site / input), so a different violation of the same property is
    still reported."""
    known = known or load_known()
    for f in known.get("findings", []):
        if f.get("property") != prop:
            continue
        if f.get("class") and f["class"] != violation.get("class"):
            continue
        if f.get("match") and not re.search(f["match"], violation.get("message", "")):
            continue
        return f
    return None


_DUMP = {"f": None}


def digest_dump(key, digest):
    """Self-test hook: when VERIF_DIGEST_DUMP is set every run's event-log digest is
    appended to a per-process file, so that two executions can be diffed run by run."""
    base = os.environ.get("VERIF_DIGEST_DUMP")
    if not base:
        return
    if _DUMP["f"] is None:
        _DUMP["f"] = open(f"{base}.{os.getpid()}", "a")
    _DUMP["f"].write(f"{key} {digest}\n")
    _DUMP["f"].flush()


class Stats:
    """Mergeable statistics: ints are summed, dicts merged recursively, sets united (with
    a cap), lists concatenated (capped)."""

    SET_CAP = 400000
    LIST_CAP = 40

    @staticmethod
    def merge(a, b):
        for k, v in b.items():
            if k not in a:
                a[k] = v
                continue
            x = a[k]
            if isinstance(v, bool) or isinstance(x, bool):
                a[k] = bool(x) or bool(v)
            elif isinstance(v, (int, float)) and isinstance(x, (int, float)):
                if k.startswith("max_"):
                    a[k] = max(x, v)
                elif k.startswith("min_"):
                    a[k] = min(x, v)
                else:
                    a[k] = x + v
            elif isinstance(v, dict) and isinstance(x, dict):
                Stats.merge(x, v)
            elif isinstance(v, set) and isinstance(x, set):
                if len(x) < Stats.SET_CAP * 16:
                    x |= v
            elif isinstance(v, list) and isinstance(x, list):
                x.extend(v)
                del x[Stats.LIST_CAP:]
            else:
                a[k] = v
        return a

    @staticmethod
    def to_json(s):
        out = {}
        for k, v in s.items():
            if isinstance(v, set):
                out[k] = {"__set__": sorted(x if isinstance(x, str) else x.hex() for x in v)[: Stats.SET_CAP]}
            elif isinstance(v, dict):
                out[k] = Stats.to_json(v)
            else:
                out[k] = v
        return out

    @staticmethod
    def from_json(s):
        out = {}
        for k, v in s.items():
            if isinstance(v, dict) and "__set__" in v:
                out[k] = set(v["__set__"])
            elif isinstance(v, dict):
                out[k] = Stats.from_json(v)
            else:
                out[k] = v
        return out


def tier_plan(mod, tier):
    plan = dict(mod.PLAN[tier])
    if os.environ.get("VERIF_BUDGET_S"):
        plan["budget_s"] = float(os.environ["VERIF_BUDGET_S"])
    if os.environ.get("VERIF_MAX_RUNS"):
        plan["max_runs"] = int(os.environ["VERIF_MAX_RUNS"])
    return plan


def nworkers_default():
    n = os.environ.get("VERIF_WORKERS")
    if n:
        return max(1, int(n))
    return max(1, min(16, os.cpu_count() or 1))


# --------------------------------------------------------------------------- worker
def install_tripwires():
    """A forgotten real clock, network connection or child process would silently make a
    run unrepeatable: inside workers they raise instead."""
    import socket
    import time as _time

    real_sleep = _time.sleep

    def sleep(d):
        if kernel.SLEEP_IS_NOOP:  # traced file-system children: back-offs return at once
            return None
        if d and d > 0.002:
            raise kernel.HarnessError(f"real time.sleep({d}) reached inside the simulation")
        return real_sleep(d)

    _time.sleep = sleep

    def connect(self, *a, **kw):
        raise kernel.HarnessError(f"real socket connect{a!r} reached inside the simulation")

    socket.socket.connect = connect
    socket.socket.connect_ex = connect

    def popen(*a, **kw):
        raise kernel.HarnessError(f"subprocess.Popen{a!r} reached inside the simulation")

    subprocess.Popen.__init__ = popen


def worker_main(argv):
    import faulthandler
    prop, tier, seed, widx, nworkers, outpath = argv[0], argv[1], int(argv[2]), int(argv[3]), int(argv[4]), argv[5]
    mod = importlib.import_module(PROPS[prop])
    plan = tier_plan(mod, tier)
    faulthandler.enable()
    faulthandler.dump_traceback_later(plan["budget_s"] * 3 + 120, exit=True)
    import logging
    logging.disable(logging.CRITICAL)
    install_tripwires()
    scratch = tempfile.mkdtemp(prefix=f"vsim-{prop}-w{widx}-", dir=kernel.scratch_root())
    res = {"stats": {}, "violation": None, "harness_error": None, "widx": widx}
    try:
        try:
            out = mod.worker(seed, widx, nworkers, plan, scratch)
            res["stats"] = Stats.to_json(out.get("stats", {}))
            res["violation"] = out.get("violation")
            res["known_hits"] = out.get("known_hits", [])
            res["samples"] = out.get("samples", [])
        except kernel.HarnessError as e:
            res["harness_error"] = "HarnessError: %s\n%s" % (e, traceback.format_exc())
        except Exception as e:  # noqa: BLE001
            res["harness_error"] = "%s: %s\n%s" % (type(e).__name__, e, traceback.format_exc())
    finally:
        shutil.rmtree(scratch, ignore_errors=True)
    write_json(outpath, res)
    return 0


# --------------------------------------------------------------------------- parent
def spawn_workers(prop, tier, seed, nworkers, outdir, extra_env=None, hashseed_of=None):
    procs = []
    for w in range(nworkers):
        env = dict(os.environ)
        env["PYTHONPATH"] = VERIF_ROOT + (":" + env["PYTHONPATH"] if env.get("PYTHONPATH") else "")
        env["PYTHONHASHSEED"] = str(hashseed_of(w) if hashseed_of else int(os.environ.get("VERIF_HASHSEED_BASE", "0")))
        env["PYTHONDONTWRITEBYTECODE"] = "1"
        if extra_env:
            env.update(extra_env)
        out = os.path.join(outdir, f"w{w}.json")
        log = open(os.path.join(outdir, f"w{w}.log"), "wb")
        p = subprocess.Popen([PY, "-m", "vsim", "--worker", prop, tier, str(seed), str(w), str(nworkers), out],
                             stdout=log, stderr=subprocess.STDOUT, env=env, cwd=VERIF_ROOT)
        procs.append((w, p, out, log))
    return procs


def sweep_stale_scratch(max_age_s=4 * 3600):
    """Workers of a check that was killed from outside leave their scratch directories
    behind; remove our own (vsim-*) ones that are older than any run can be."""
    root = kernel.scratch_root()
    now = time.time()
    try:
        names = [n for n in os.listdir(root) if n.startswith("vsim-")]
    except OSError:
        return
    for n in names:
        p = os.path.join(root, n)
        try:
            if os.path.isdir(p) and not os.path.islink(p) and now - os.stat(p).st_mtime > max_age_s:
                shutil.rmtree(p, ignore_errors=True)
        except OSError:
            pass


def check_main(prop, tier, seed):
    t0 = time.monotonic()
    mod = importlib.import_module(PROPS[prop])
    plan = tier_plan(mod, tier)
    if hasattr(mod, "prepare"):
        mod.prepare()
    nworkers = min(nworkers_default(), plan.get("max_workers", 16))
    mult = plan.get("workers_multiple_of")
    if mult:
        nworkers = max(mult, nworkers // mult * mult)
    sweep_stale_scratch()
    outdir = tempfile.mkdtemp(prefix=f"vsim-{prop}-parent-", dir=kernel.scratch_root())
    harness_errors = []
    results = []
    try:
        procs = spawn_workers(prop, tier, seed, nworkers, outdir,
                              hashseed_of=getattr(mod, "hashseed_of_worker", None))
        deadline = time.monotonic() + plan["budget_s"] * 3 + 180
        for w, p, out, log in procs:
            left = max(1.0, deadline - time.monotonic())
            try:
                rc = p.wait(timeout=left)
            except subprocess.TimeoutExpired:
                p.kill()
                p.wait()
                rc = -9
                harness_errors.append(f"worker {w}: wall-clock kill")
            log.close()
            if os.path.exists(out):
                r = read_json(out)
                results.append(r)
                if r.get("harness_error"):
                    harness_errors.append(f"worker {w}: {r['harness_error']}")
            else:
                tail = open(os.path.join(outdir, f"w{w}.log"), "rb").read()[-3000:].decode("utf-8", "replace")
                harness_errors.append(f"worker {w}: exit {rc} without result\n{tail}")
        stats = {}
        samples = []
        known_hits = []
        violations = []
        for r in results:
            Stats.merge(stats, Stats.from_json(r.get("stats", {})))
            samples.extend(r.get("samples", []))
            known_hits.extend(r.get("known_hits", []))
            if r.get("violation"):
                violations.append(r["violation"])
        violations.sort(key=lambda v: v.get("run_index", 0))
        wall = time.monotonic() - t0
        # known findings: one line each
        seen = set()
        for k in known_hits:
            if k["id"] not in seen:
                seen.add(k["id"])
                print(f"KNOWN-FINDING: property={prop} {k['what']}")
        rc = 0
        replay_paths = []
        for v in violations[:3]:
            os.makedirs(os.path.join(out_root(), "replays"), exist_ok=True)
            path = os.path.join(out_root(), "replays",
                                f"{prop}-{seed}-{v.get('run_index', 0)}-{v['violation']['class']}.json")
            write_json(path, v)
            replay_paths.append(path)
            print(f"VIOLATION property={prop} replay={path}")
            print(f"  class={v['violation']['class']}: {v['violation']['message']}")
            rc = 1
        ev = mod.evidence(stats, samples, plan, tier, seed, wall, len(violations), known_hits, nworkers)
        os.makedirs(os.path.join(out_root(), "evidence"), exist_ok=True)
        write_json(os.path.join(out_root(), "evidence", f"{prop}.json"), ev)
        if harness_errors:
            for h in harness_errors:
                eprint("HARNESS-ERROR:", h)
            if rc == 0:
                rc = 2
        cov = ev["coverage"]
        if rc == 0 and not cov.get("evaluations"):
            # nothing was evaluated at all (every history was unusable): that is no verdict, not a pass
            print(f"HARNESS-ERROR: {prop}: no evaluation completed within the budget", file=sys.stderr)
            rc = 2
        print(f"{prop} {tier}: evaluations={cov['evaluations']} distinct_nontrivial={cov['distinct_nontrivial']} "
              f"violations={len(violations)} known={len(seen)} wall={wall:.1f}s workers={nworkers} seed={seed}")
        return rc
    finally:
        shutil.rmtree(outdir, ignore_errors=True)


def replay_main(path):
    v = read_json(path)
    prop = v["property"]
    mod = importlib.import_module(PROPS[prop])
    want_hs = str(v.get("pythonhashseed", 0))
    if os.environ.get("PYTHONHASHSEED") != want_hs:
        env = dict(os.environ)
        env["PYTHONHASHSEED"] = want_hs
        env["PYTHONPATH"] = VERIF_ROOT + (":" + env["PYTHONPATH"] if env.get("PYTHONPATH") else "")
        return subprocess.call([PY, "-m", "vsim", "--replay", path], env=env, cwd=VERIF_ROOT)
    import logging
    logging.disable(logging.CRITICAL)
    scratch = tempfile.mkdtemp(prefix=f"vsim-{prop}-replay-", dir=kernel.scratch_root())
    try:
        got = mod.replay(v, scratch)
    finally:
        shutil.rmtree(scratch, ignore_errors=True)
    want = v["violation"]
    if got.get("violation") is None:
        print(f"replay of {path}: NO violation (recorded: {want['class']}: {want['message']})")
        return 0
    g = got["violation"]
    same = g["class"] == want["class"] and got.get("digest") == v.get("digest")
    print(f"VIOLATION property={prop} replay={path}")
    print(f"  class={g['class']}: {g['message']}")
    print(f"  reproduces recorded violation exactly: {same} (digest {got.get('digest')} vs {v.get('digest')})")
    return 1


def main(argv=None):
    argv = list(sys.argv[1:] if argv is None else argv)
    if argv and argv[0] == "--worker":
        return worker_main(argv[1:])
    if argv and argv[0] == "--replay":
        return replay_main(argv[1])
    if argv and argv[0] == "selftest":
        from . import selftest
        return selftest.main(argv[1:])
    if not argv:
        eprint("usage: check <ID> [--tier quick|thorough] | check <ID> --replay <file> | check selftest ...")
        return 2
    prop = argv[0]
    tier = os.environ.get("VERIF_TIER", "quick")
    if "--replay" in argv:
        return replay_main(argv[argv.index("--replay") + 1])
    if "--tier" in argv:
        tier = argv[argv.index("--tier") + 1]
    if tier not in ("quick", "thorough"):
        tier = "quick"
    seed = int(os.environ.get("VERIF_SEED", "0") or 0)
    if prop not in PROPS:
        eprint(f"unknown property {prop}")
        return 2
    return check_main(prop, tier, seed)


if __name__ == "__main__":
    sys.exit(main())
