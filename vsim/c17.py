"""C17 - eligible workers, priority/FIFO order, finished stays finished, waiters, idempotent add, counters."""
from . import qscommon

PROP = "C17"
PLAN = {"quick": {"budget_s": 40, "max_runs": 400000}, "thorough": {"budget_s": 600, "max_runs": 40000000}}
RULE = ("each evaluation is one seeded history (same world and alphabet as C16 plus wait, re-add, info, stats) checked "
        "operation by operation against the executable reference model in vsim/qsmodel.py, driven by the server's "
        "own execution order: R-elig, R-notdone, R-order, R-final, R-wait, R-idem, R-count, R-ttl, R-snap.  "
        "Non-trivial = at least one fault kind fired; distinct = distinct executed step lists (hash).")
EXPECTED_PROBES = ["ordered-pull-with-2+-candidates", "re-add-existing", "re-add-after-kill", "re-add-finished",
                   "finish-after-timeout", "finish-after-killed", "kill-after-success", "wait-released-later",
                   "wait-released-immediately", "timeout-while-held", "timeout-while-queued", "stats-checked",
                   "ttl-drop", "finish-by-non-holder"]


def worker(seed, widx, nworkers, plan, scratch):
    return qscommon.qs_worker(PROP, seed, widx, nworkers, plan, scratch, allow_restart=True)


def evidence(stats, samples, plan, tier, seed, wall, nviol, known_hits, nworkers):
    return qscommon.qs_evidence(PROP, "exploration", stats, samples, plan, tier, seed, wall, nviol, known_hits,
                                nworkers, RULE, {"expected_probes": EXPECTED_PROBES})


def replay(v, scratch):
    return qscommon.qs_replay(v, scratch)
