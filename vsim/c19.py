"""C19 - render status reported to the wiki is faithful to the job's real state.

The real nserve.Application.do_render / do_render_status run in greenlets whose queue
proxy is bound in-process to the simulated queue server.  Every RPC of an application
call is parked until the scheduler releases it, so the two qinfo calls of one status
poll interleave with workers, kills, timeouts and TTL drops.  The oracle is computed
from the reference model's snapshots at the instants the server executed those calls."""

import copy
import re
import unicodedata
import urllib.parse

import gevent
import gevent.event

from . import qscommon, qsrun
from .kernel import Violation
from .qsmodel import CLASS2PROP, QsModel

PROP = "C19"
PLAN = {"quick": {"budget_s": 40, "max_runs": 400000}, "thorough": {"budget_s": 600, "max_runs": 40000000}}
for _c in ("S-state", "S-finished", "S-failed", "S-progress", "S-header", "S-exception", "S-fields"):
    CLASS2PROP[_c] = "C19"

BASE_URL = "http://wiki.example.org/w/"
SIM_QSERVE = ("sim", 14311)
from .kernel import HarnessError as kernel_HarnessError  # noqa: E402


def _collections():
    """Two metabooks and the collection ids nserve itself computes for them."""
    import io
    import sys
    from mwlib.core import nserve
    out = {}
    saved = sys.stdout
    sys.stdout = io.StringIO()
    try:
        for t in ("Alpha", "Beta"):
            mb = '{"type": "Collection", "version": 1, "title": "%s", "items": [{"type": "Article", "title": "%s"}]}' % (t, t)
            out[nserve.make_collection_id({"metabook": mb, "base_url": BASE_URL})] = mb
    finally:
        sys.stdout = saved
    return out


METABOOKS = _collections()
CIDS = sorted(METABOOKS)
WRITERS = ["rl", "odf", "xhtml"]
FIXED_MSG = {"status": "data fetched. waiting for render process.."}

NAME_ALPHABET = [
    "a", "B", "z", "0", "9", " ", "  ", ".", "-", "_", ";", ",", "\"", "'", ":", "%", "/", "\\", "=", "(", ")", "*",
    "ä", "é", "ß", "ñ", "Ж", "д", "中", "文", "日", "本", "ع", "ر",
    "א", "ก", " ", " ", ";", "；", "＂", "，", "″", "́", "̈", "‏",
    "‍", "\U0001f600", "\U0001f4d6", "™", "ﬁ", "½", "Ⅰ", "　", "%0d%0a", "filename*=", "UTF-8''",
]


def gen_filename(rng):
    r = rng.random()
    if r < 0.08:
        return ""
    if r < 0.12:
        return rng.choice([" ", "  ", " ", ";", ";;", "\"", ";", "；＂"])
    n = rng.randint(1, 12)
    if r > 0.93:  # a long title, mostly non-ASCII
        n = rng.randint(30, 120)
        return "".join(rng.choice(NAME_ALPHABET[22:40] + ["a", " "]) for _ in range(n))
    return "".join(rng.choice(NAME_ALPHABET) for _ in range(n))


class C19Model(QsModel):
    def __init__(self, *a, **kw):
        QsModel.__init__(self, *a, **kw)
        self.polls = {}  # conn id -> (cid, writer)
        self.poll_snaps = {}  # conn id -> [snapshot or None, ...] at each executed qinfo

    def on_exec(self, conn, rpc, args, now):
        QsModel.on_exec(self, conn, rpc, args, now)
        if conn in self.polls and rpc == "qinfo":
            cid, writer = self.polls[conn]
            snaps = self.poll_snaps.setdefault(conn, [])
            # the real state of THAT writer's render job and of the fetch job at this instant,
            # whatever id the code asked for
            jr = self.jobs.get(f"{cid}:render-{writer}")
            jz = self.jobs.get(f"{cid}:makezip")
            snaps.append({"asked": args.get("jobid"),
                          "render": copy.deepcopy(self.snapshot(jr)) if jr is not None else None,
                          "fetch": copy.deepcopy(self.snapshot(jz)) if jz is not None else None})


    def on_resp(self, conn, rpc, args, payload, now):
        # What the queue answers to a status poll is judged by C19's own oracle (reported
        # state vs the job's real state in the model), not by C17's snapshot rules - a queue
        # that misreports a job must show up as an unfaithful status, not end the run early.
        if conn in self.polls:
            self.expect.pop(conn, None)
            return
        QsModel.on_resp(self, conn, rpc, args, payload, now)


GHOST_QSERVE = ("sim2", 14312)


class GhostClient:
    """The installation's second queue server: it knows none of our jobs.  A job of a
    collection that lives on the simulated server must never be sent here."""

    host, port = GHOST_QSERVE

    def __init__(self, run=None):
        self.run = run

    def send(self, name, **kwargs):
        if name == "qadd":
            jid = kwargs.get("jobid")
            cid = jid.split(":", 1)[0] if isinstance(jid, str) else None
            if self.run is not None and cid in self.run.assigned_here:
                self.run.misrouted.append(jid)
            return jid
        return None


class InProcClient:
    """rpc_client for qs.rpcclient.ServerProxy: JSON-encodes the call, parks the calling
    greenlet until the scheduler releases the request and the server answered."""

    host, port = "sim", 0

    def __init__(self, run, pid):
        self.run = run
        self.pid = pid

    def send(self, name, **kwargs):
        ar = gevent.event.AsyncResult()
        self.run.parked[self.pid] = (name, kwargs, ar)
        data = ar.get()
        err = data.get("error")
        if err:
            raise RuntimeError(err)
        return data["result"]


class C19Run(qsrun.QsRun):
    def __init__(self, *a, **kw):
        kw["model_cls"] = C19Model
        qsrun.QsRun.__init__(self, *a, **kw)
        self._install_nserve()
        self.parked = {}  # pid -> (rpc, args, AsyncResult)
        self.calls = {}  # pid -> dict(kind, cid, writer, greenlet, out)
        self.npolls = 0
        self.assigned_here = set()
        self.misrouted = []
        self.poll_stats = {}
        self.interleaved_polls = 0

    # ---- application calls ---------------------------------------------------
    def _app_call(self, pid, kind, cid, writer, mode="new"):
        """The call goes through Application.dispatch, as a bottle request would: command
        look-up, collection id computation / check, qserve selection, error wrapping."""
        from mwlib.core import nserve

        call = self.calls[pid]
        if kind == "status":
            params = {"command": "render_status", "collection_id": cid, "writer": writer}
        elif mode == "new":
            params = {"command": "render", "metabook": METABOOKS[cid], "writer": writer, "base_url": BASE_URL}
        else:
            params = {"command": "render", "collection_id": cid, "writer": writer, "base_url": BASE_URL}

        class FakeRequest:
            url = "http://render.example.org/"

        class Params(dict):  # like bottle's FormsDict: a dict that also has a __dict__
            pass

        FakeRequest.params = Params(params)

        def run():
            self._creating_pid = pid  # dispatch builds its queue proxy before anything can block
            try:
                # through the route function bottle would call; `request` is bottle's per-request
                # object (read before anything can block, so a module attribute is enough)
                nserve.request = FakeRequest
                call["out"] = nserve.dispatch_command("/")
            except gevent.GreenletExit:
                raise
            except BaseException as e:  # noqa: BLE001  (bottle.HTTPResponse is an exception, too)
                call["out"] = {"exception": f"{type(e).__name__}: {getattr(e, 'body', e)}"}
            call["finished"] = True

        call["greenlet"] = gevent.spawn(run)

    def _install_nserve(self):
        from mwlib.core import nserve
        from mwlib.utils import lrucache
        from qs import rpcclient
        self._saved_proxy = nserve.rpcclient
        self._saved_request = nserve.request
        run = self

        class _RpcClientModule:
            """Stands in for the qs.rpcclient module inside nserve: ServerProxy(host, port) is
            bound in-process to the simulated queue server."""

            @staticmethod
            def ServerProxy(host=None, port=None, rpc_client=None):
                call = run.calls[run._creating_pid]
                if (host, port) == GHOST_QSERVE:
                    # the second queue server of the installation: it knows none of our jobs
                    call["ghost"] = True
                    call["was_assigned_here"] = call["cid"] in run.assigned_here
                    return rpcclient.ServerProxy(rpc_client=GhostClient(run))
                if (host, port) != SIM_QSERVE:
                    raise kernel_HarnessError(f"nserve picked queue server {(host, port)!r}")
                run.assigned_here.add(call["cid"])  # nserve keeps a collection on the queue server it first chose
                return rpcclient.ServerProxy(rpc_client=InProcClient(run, run._creating_pid))

        nserve.rpcclient = _RpcClientModule
        nserve.busy.clear()
        nserve.busy[SIM_QSERVE] = False
        if self.config is not None and self.config.get("two_qserves") or self.script is not None:
            nserve.busy[GHOST_QSERVE] = "system down"
        nserve.collid2qserve = lrucache.LRUCache(4000)
        self.blip = False

    def set_blip(self, on):
        """What WatchQServe does when the assigned queue server looks overloaded or down for a
        moment, while the installation's other queue server is idle."""
        from mwlib.core import nserve
        if GHOST_QSERVE not in nserve.busy:
            return False
        self.blip = bool(on)
        nserve.busy[SIM_QSERVE] = "system overloaded" if on else False
        nserve.busy[GHOST_QSERVE] = False if on else "system down"
        return True

    def _uninstall_nserve(self):
        from mwlib.core import nserve
        nserve.rpcclient = self._saved_proxy
        nserve.request = self._saved_request

    def step(self, st):
        if st[0] == "restart":
            # the queue server goes away under the application calls that are talking to it:
            # their connections break, the calls end with an error (and are not judged)
            lost = {"error": "connection to the queue server lost (restart)"}
            for pid, call in self.calls.items():
                if call["finished"]:
                    continue
                call["interrupted"] = True
                p = self.parked.pop(pid, None)
                if p is not None:
                    p[2].set(lost)
                sock = self.sim.conns.get(pid)
                if sock is not None and sock.reply_cb is not None:
                    cb, sock.reply_cb = sock.reply_cb, None
                    cb(lost)
        return qsrun.QsRun.step(self, st)

    def step_extra(self, st):
        sim, model = self.sim, self.model
        op = st[0]
        if op == "app":
            _, pid, kind, cid, writer = st[:5]
            mode = st[5] if len(st) > 5 else "new"
            if pid in self.calls:
                return False
            sim.connect(pid)
            self.calls[pid] = {"kind": kind, "cid": cid, "writer": writer, "finished": False, "out": None,
                               "checked": False, "rpcs": 0, "events_between": 0}
            if kind == "status":
                model.polls[sim.cid(pid)] = (cid, writer)
            self._app_call(pid, kind, cid, writer, mode)
            self._inject(("app", kind))
            return True
        if op == "blip":
            ok = self.set_blip(st[1] == "on")
            if ok and st[1] == "on":
                self.fault("queue-server-busy-blip")
            return ok
        if op == "prpc":
            pid = st[1]
            p = self.parked.pop(pid, None)
            if p is None or not sim.can_send(pid):
                if p is not None:
                    self.parked[pid] = p
                return False
            rpc, args, ar = p
            sim.conns[pid].reply_cb = ar.set
            sim.send(pid, rpc, args)
            self.calls[pid]["rpcs"] += 1
            self._inject(("prpc", rpc))
            return True
        raise qsrun.HarnessError(f"unknown step {st!r}")

    def _quiesce(self):
        qsrun.QsRun._quiesce(self)
        while self._check_calls():
            # finished application calls closed their connections: let the server see that
            qsrun.QsRun._quiesce(self)

    def _check_calls(self):
        if self.misrouted:
            jid = self.misrouted[0]
            raise Violation("S-state", f"job {jid!r} of a collection that lives on this queue server was enqueued on the "
                            f"installation's other queue server: its status can never be reported faithfully")
        closed = False
        for pid, call in self.calls.items():
            if call["finished"] and not call["checked"]:
                call["checked"] = True
                closed = self.sim.disconnect(pid) or closed
                if call.get("interrupted"):
                    self.poll_stats["interrupted-by-restart"] = self.poll_stats.get("interrupted-by-restart", 0) + 1
                    continue
                if call["kind"] == "status":
                    self.check_status(pid, call)
                else:
                    out = call["out"]
                    if isinstance(out, dict) and (out.get("queue_full") or call.get("ghost")):
                        continue
                    if not isinstance(out, dict) or "exception" in out or "error" in out:
                        raise Violation("S-exception", f"do_render({call['cid']}, {call['writer']}) returned {out!r}")
        return closed

    # ---- the oracle ------------------------------------------------------------
    def check_status(self, pid, call):
        model = self.model
        out = call["out"]
        cid, writer = call["cid"], call["writer"]
        snaps = model.poll_snaps.get(self.sim.cid(pid), [])
        self.npolls += 1
        what = f"status({cid[:4]}.., {writer})"
        if isinstance(out, dict) and out.get("queue_full"):
            self.poll_stats["overloaded-answer"] = self.poll_stats.get("overloaded-answer", 0) + 1
            return  # "system overloaded, try again later": a refusal, not a status
        if call.get("ghost"):
            # the collection is assigned to the other queue server (it was first seen while this
            # one was busy): nothing of it can be known here, so it can only be in progress
            self.poll_stats["asked-other-queue-server"] = self.poll_stats.get("asked-other-queue-server", 0) + 1
            known = [j for j in (f"{cid}:render-{writer}", f"{cid}:makezip") if j in model.jobs]
            if call.get("was_assigned_here") and known:
                raise Violation("S-state", f"{what} asked the installation's other queue server although the collection's "
                                f"jobs live on this one; it answered {out.get('state') if isinstance(out, dict) else out!r}")
            return
        if not isinstance(out, dict) or "exception" in out or "state" not in out:
            raise Violation("S-exception", f"{what} returned {out!r}")
        if out.get("collection_id") != cid or out.get("writer") != writer:
            raise Violation("S-fields", f"{what} echoes collection/writer {out.get('collection_id')!r}/{out.get('writer')!r}")
        if not snaps:
            raise Violation("S-state", f"{what} answered {out['state']!r} without asking the queue")
        # A poll asks the queue once, twice or more; the answer must be faithful to the render
        # job's real state at ONE of those instants (and, for the fetch progress, to the fetch
        # job's state at one of them).  The first instant gives the message if none fits.
        first = None
        for k in range(len(snaps)):
            for m_ in range(len(snaps)):
                if len(snaps) > 1 and m_ == k:
                    continue
                bad = self._judge(what, out, snaps[k]["render"], snaps[m_]["fetch"] if len(snaps) > 1 else None,
                                  len(snaps) > 1, writer, cid, count=(first is None))
                if bad is None:
                    return
                if first is None:
                    first = bad
        raise first

    def _judge(self, what, out, s1, s2, asked_twice, writer, cid, count=False):
        """None if `out` is a faithful answer for render-job state s1 (and fetch-job state s2),
        else the Violation."""
        model = self.model
        state = out["state"]
        if s1 is not None and s1["done"] and s1["error"]:
            exp = "failed"
        elif s1 is not None and s1["done"]:
            exp = "finished"
        else:
            exp = "progress"
        if count:
            self.poll_stats[exp] = self.poll_stats.get(exp, 0) + 1
        if state != exp:
            cls = {"finished": "S-finished", "failed": "S-failed"}.get(state, "S-state")
            extra = ""
            if state == "finished":
                others = [w for w in WRITERS if w != writer and
                          (model.jobs.get(f"{cid}:render-{w}") is not None and model.jobs[f"{cid}:render-{w}"].state == "d")]
                extra = f" (other finished writers of this collection: {others})" if others else ""
            return Violation(cls, f"{what} reports {state!r} but the render job was "
                             f"{self._describe(s1)} when the queue answered{extra}",
                             detail={"got": state, "expected": exp})
        if exp == "failed":
            if out.get("error") != s1["error"]:
                return Violation("S-failed", f"{what} failed with error {out.get('error')!r}, job error is {s1['error']!r}")
            return None
        if exp == "finished":
            try:
                self.check_finished(what, out, s1, writer)
            except Violation as v:
                return v
            return None
        # progress
        if s1 is not None and s1["info"]:
            exp_status = s1["info"]
            if count:
                self.poll_stats["progress-render-info"] = self.poll_stats.get("progress-render-info", 0) + 1
        else:
            if not asked_twice:
                return Violation("S-progress", f"{what}: render job has no progress of its own but the fetch job was not asked")
            if s2 is not None and s2["done"]:
                # fetching is over and rendering has no progress of its own yet: what exactly is
                # shown then is not fixed by the property
                if count:
                    self.poll_stats["progress-fetched"] = self.poll_stats.get("progress-fetched", 0) + 1
                return None
            exp_status = s2["info"] if s2 is not None else {}
            if count:
                self.poll_stats["progress-fetch-info"] = self.poll_stats.get("progress-fetch-info", 0) + 1
        if out.get("status") != exp_status:
            return Violation("S-progress", f"{what} shows progress {out.get('status')!r}, expected {exp_status!r} "
                             f"(render job {self._describe(s1)}, fetch job {self._describe(s2)})")
        return None

    @staticmethod
    def _describe(s):
        if s is None:
            return "absent"
        if s["done"]:
            return f"finished with error {s['error']!r}" if s["error"] else "finished without error"
        return "unfinished"

    def check_finished(self, what, out, s1, writer):
        from mwlib.core import nserve
        nw = nserve.name2writer[writer]
        res = s1["result"]
        if res:
            for k_out, k_res in (("url", "url"), ("content_length", "size")):
                if out.get(k_out) != res.get(k_res):
                    raise Violation("S-fields", f"{what}: {k_out} is {out.get(k_out)!r}, the worker reported {res.get(k_res)!r}")
            if out.get("suggested_filename", "") != res.get("suggested_filename", ""):
                raise Violation("S-fields", f"{what}: suggested_filename {out.get('suggested_filename')!r} != {res.get('suggested_filename')!r}")
        else:
            # finished without a result: there is no document of THIS job to point at
            for k_out in ("url", "content_length"):
                if out.get(k_out) is not None:
                    raise Violation("S-fields", f"{what}: the render job finished without a result but the status carries "
                                    f"{k_out}={out.get(k_out)!r} (some other job's?)")
            if out.get("suggested_filename"):
                raise Violation("S-fields", f"{what}: the render job finished without a result but the status carries "
                                f"suggested_filename={out.get('suggested_filename')!r}")
        if out.get("content_type") != nw.content_type:
            raise Violation("S-fields", f"{what}: content_type {out.get('content_type')!r} is not the writer's {nw.content_type!r}")
        cd = out.get("content_disposition")
        suggested = (res or {}).get("suggested_filename", "") if res else ""
        self.check_disposition(what, cd, suggested, nw.file_extension)
        self.poll_stats["finished-with-result" if res else "finished-without-result"] = \
            self.poll_stats.get("finished-with-result" if res else "finished-without-result", 0) + 1

    def check_disposition(self, what, cd, suggested, ext):
        if not isinstance(cd, str) or not cd:
            raise Violation("S-header", f"{what}: no content_disposition for a finished document")
        try:
            cd.encode("ascii")
        except UnicodeEncodeError:
            raise Violation("S-header", f"{what}: content_disposition is not ASCII: {cd!r}")
        if any(ord(c) < 0x20 or ord(c) == 0x7f for c in cd):
            raise Violation("S-header", f"{what}: control character in content_disposition {cd!r}")
        parts = cd.split(";")
        if not re.fullmatch(r"[A-Za-z-]+", parts[0].strip()) or len(parts) < 2 or len(parts) > 3:
            raise Violation("S-header", f"{what}: content_disposition does not split into <type>; filename[; filename*]: {cd!r}")
        m = re.fullmatch(r" ?filename=([^\s;,\"']+)", parts[1])
        if not m:
            raise Violation("S-header", f"{what}: bad filename parameter in {cd!r}")
        if len(parts) == 3:
            m2 = re.fullmatch(r" ?filename\*=UTF-8''((?:[A-Za-z0-9._~/!$&+^`|-]|%[0-9A-Fa-f]{2})+)", parts[2])
            if not m2:
                raise Violation("S-header", f"{what}: bad filename* parameter in {cd!r}")
            try:
                dec = urllib.parse.unquote(m2.group(1), errors="strict")
            except UnicodeDecodeError:
                raise Violation("S-header", f"{what}: filename* is not valid percent-encoded UTF-8 in {cd!r}")
            want = ((suggested or "").strip() or "collection") + "." + ext
            if dec == want:
                self.poll_stats["disposition-utf8-roundtrip"] = self.poll_stats.get("disposition-utf8-roundtrip", 0) + 1
        self.poll_stats["disposition-checked"] = self.poll_stats.get("disposition-checked", 0) + 1
        if len(parts) == 3:
            self.poll_stats["disposition-with-utf8"] = self.poll_stats.get("disposition-with-utf8", 0) + 1

    # ---- generation ------------------------------------------------------------
    def gen_step(self):
        rng = self.rng
        c = self.config
        live_calls = [p for p, cl in self.calls.items() if not cl["finished"]]
        if c.get("two_qserves") and rng.random() < (0.5 if self.blip else 0.06):
            return ["blip", "off" if self.blip else "on"]
        r = rng.random()
        if self.parked and r < c["p_release"]:
            return ["prpc", rng.choice(sorted(self.parked))]
        if r < c["p_release"] + c["p_poll"] and len(live_calls) < 4:
            pid = f"p{len(self.calls) + 1}"
            kind = "status" if (rng.random() < c["p_status"] and self._any_render_known()) else rng.choice(["status", "render"])
            cid = rng.choice(c["cids"])
            writer = rng.choice(c["writers"])
            if kind == "status" and rng.random() < 0.7:
                known = self._known_pairs()
                if known:
                    cid, writer = rng.choice(known)
                    if rng.random() < 0.25:  # a writer of the same collection that may not be rendered
                        writer = rng.choice(c["writers"])
            return ["app", pid, kind, cid, writer, rng.choice(["new", "new", "old"])]
        return qsrun.QsRun.gen_step(self)

    def _known_pairs(self):
        out = []
        for jid in sorted(self.model.jobs, key=str):
            if isinstance(jid, str) and ":render-" in jid:
                cid, w = jid.split(":render-")
                out.append((cid, w))
        return out

    def _any_render_known(self):
        return bool(self._known_pairs())

    def _add_args(self, channel=None, wait=False):
        # direct adds (not through nserve) use the same id scheme so that they collide
        rng, c = self.rng, self.config
        cid = rng.choice(c["cids"])
        k = self._readd_candidate() if self._bias(0.5) else None
        if k is not None:
            return {"channel": k.channel, "jobid": k.jobid, "timeout": rng.choice([60, 1200])}
        if rng.random() < 0.3:
            # (a client of the queue other than nserve, asking for a time-to-live of its own)
            kind = rng.choice(["makezip", f"render-{rng.choice(c['writers'])}"])
            return {"channel": kind.split("-")[0], "jobid": f"{cid}:{kind}", "timeout": rng.choice([60, 1200]),
                    "ttl": rng.choice([3600, 600])}
        if rng.random() < 0.5:
            return {"channel": "makezip", "jobid": f"{cid}:makezip", "timeout": rng.choice([60, 1200])}
        return {"channel": "render", "jobid": f"{cid}:render-{rng.choice(c['writers'])}", "timeout": rng.choice([60, 1200])}

    def _motif_new_add(self, timeout):
        unused = [x for x in self.config["jobids"] if x not in self.model.jobs and ":render-" in x]
        jid = self.rng.choice(unused or [x for x in self.config["jobids"] if ":render-" in x])
        return {"channel": "render", "jobid": jid, "timeout": timeout}

    def g_finish(self, sendable, live, deadc):
        st = qsrun.QsRun.g_finish(self, sendable, live, deadc)
        rng = self.rng
        a = {"jobid": st[3]["jobid"]}
        r = rng.random()
        if r < 0.55:
            res = {"url": f"http://cache.example.org/{rng.randrange(1000)}/output.x",
                   "size": rng.choice([0, rng.randrange(10 ** 7), rng.randrange(10 ** 7)])}
            if rng.random() < 0.8:
                res["suggested_filename"] = gen_filename(rng)
            a["result"] = res
        elif r < 0.7:
            pass  # finished without result
        else:
            a["error"] = rng.choice(["boom", "RuntimeError: render failed in function f, file w.py, line 3",
                                     "mw-render failed\nLast Output:\n  Traceback (most recent call last):\n  ...",
                                     "\nerror on the second line", "e" * 300, {"code": 3}])
        return ["send", st[1], "qfinish", a]

    def g_setinfo(self, sendable, live, deadc):
        st = qsrun.QsRun.g_setinfo(self, sendable, live, deadc)
        rng = self.rng
        st[3]["info"] = rng.choice([
            {"status": rng.choice(["fetching", "parsing", "rendering", "layout"]), "progress": rng.randrange(100)},
            {"progress": rng.randrange(100)},  # progress without a status text
            {"status": "", "progress": rng.randrange(100)},
            {"article": "Some article", "progress": rng.randrange(100)},
            {"status": rng.choice(["rendering", "layout"])},
        ])
        return st

    def g_jump(self, sendable, live, deadc):
        return ["jump", self.rng.choice([61, 1201, 1201, 3601, 3700, 11])]

    def generate(self):
        qsrun.QsRun.generate(self)
        if self.config.get("late_final"):
            # the history ends some time later: jobs whose deadline passed meanwhile have timed out
            self.do(["jump", self.config["late_final"]])
            self.do(["adv", 2])
            self.do(["run"])

    def epilogue(self, probe=True, drain=True):
        # let every application call finish: release parked RPCs one at a time
        guard = 0
        self._quiesce()
        while guard < 200 and (self.parked or any(not c["finished"] for c in self.calls.values())):
            guard += 1
            if self.parked:
                self.step(["prpc", sorted(self.parked)[0]])
            self.step(["run"])
            if not self.parked and all(c["finished"] for c in self.calls.values()):
                break
            if not self.parked:
                break
        stuck = [p for p, c in self.calls.items() if not c["finished"]]
        if stuck:
            raise Violation("S-exception", f"application calls never returned: {stuck}")
        # final polls: whatever the history did, the status of every render job the queue was ever
        # asked for must still be faithful now (each poll runs alone, its RPCs released at once)
        if self.blip:
            self.step(["blip", "off"])
        for n, (cid, writer) in enumerate(self._known_pairs()[:6]):
            pid = f"fp{n + 1}"
            if not self.step(["app", pid, "status", cid, writer, "new"]):
                continue
            guard = 0
            while guard < 20 and not self.calls[pid]["finished"]:
                guard += 1
                if pid in self.parked:
                    self.step(["prpc", pid])
                self.step(["run"])
            if not self.calls[pid]["finished"]:
                raise Violation("S-exception", f"final status({cid[:4]}.., {writer}) never returned")
            self.poll_stats["final-poll"] = self.poll_stats.get("final-poll", 0) + 1
        self._quiesce()
        qsrun.QsRun.epilogue(self, probe=True, drain=True)

    def close(self):
        self._uninstall_nserve()
        for c in self.calls.values():
            g = c.get("greenlet")
            if g is not None and not g.dead:
                g.kill(block=False)
        qsrun.QsRun.close(self)

    def result(self, violation=None):
        r = qsrun.QsRun.result(self, violation)
        r["probes"] = dict(r["probes"])
        for k, v in self.poll_stats.items():
            r["probes"]["poll:" + k] = v
        r["probes"]["polls"] = self.npolls
        two = sum(1 for p, c in self.calls.items() if c["kind"] == "status" and c["rpcs"] >= 2)
        r["probes"]["polls-with-two-rpcs"] = two
        return r


def draw_run(seed, prop, i, allow_restart=False):
    from .kernel import rng_for
    rng = rng_for(seed, prop, i)
    mode = "bounded" if rng.random() < 0.5 else "soak"
    faults = rng.random() >= 0.15
    cfg = qsrun.draw_config(rng, mode, allow_restart=True, faults=faults)
    cfg["channels"] = ["makezip", "render"]
    cfg["clients"] = ["c1"]
    cfg["cids"] = CIDS[: rng.randint(1, 2)]
    cfg["writers"] = WRITERS[: rng.randint(1, 3)]
    cfg["jobids"] = [f"{c}:makezip" for c in cfg["cids"]] + [f"{c}:render-{w}" for c in cfg["cids"] for w in cfg["writers"]]
    cfg["n_ops"] = rng.randint(8, 40)
    cfg["p_release"] = rng.choice([0.15, 0.3, 0.5])
    cfg["p_poll"] = rng.choice([0.1, 0.2, 0.3])
    cfg["p_status"] = rng.choice([0.5, 0.8])
    cfg["two_qserves"] = faults and rng.random() < 0.4
    cfg["late_final"] = rng.choice([70, 130, 700, 1300, 4000]) if (faults and rng.random() < 0.3) else None
    w = cfg["weights"]
    w["add"] = rng.choice([0, 1])
    w["addwait"] = 0
    w["wait"] = rng.choice([0, 1])
    w["pull"] = rng.choice([4, 6])
    w["finish"] = rng.choice([3, 5])
    w["setinfo"] = rng.choice([1, 3])
    w["jump"] = rng.choice([0, 1, 2]) if faults else 0
    w["adv"] = rng.choice([1, 2])
    return rng, cfg


_orig_draw = qscommon.draw_run


def worker(seed, widx, nworkers, plan, scratch):
    import os
    import sys
    qscommon.draw_run = draw_run
    saved = sys.stdout
    sys.stdout = open(os.devnull, "w")  # nserve prints (new-collection ..., errors)
    try:
        return qscommon.qs_worker(PROP, seed, widx, nworkers, plan, scratch, run_cls=C19Run)
    finally:
        sys.stdout.close()
        sys.stdout = saved
        qscommon.draw_run = _orig_draw


RULE = ("each evaluation is one seeded history of a collection's fetch (makezip) and render jobs on the real queue "
        "server: do_render and do_render_status of the real nserve.Application run as greenlets whose RPCs are "
        "released one at a time by the scheduler, interleaved with simulated workers (pull, progress info, finish "
        "with/without result, error), kills, disconnects, timeouts (clock jumps past 1200 s), TTL drops, up to 3 "
        "writers and 2 collections, suggested filenames over printable Unicode.  Oracle: reported state vs the "
        "reference model's snapshot of that writer's render job at the instant the server executed the poll's qinfo; "
        "header-safety of content_disposition.  Non-trivial = a fault kind fired; distinct = distinct step lists.")
EXPECTED_PROBES = ["polls", "polls-with-two-rpcs", "poll:finished", "poll:failed", "poll:progress", "poll:progress-fetched",
                   "poll:progress-fetch-info", "poll:progress-render-info", "poll:finished-with-result",
                   "poll:finished-without-result", "poll:disposition-with-utf8", "ttl-drop", "timeout-while-held"]


def evidence(stats, samples, plan, tier, seed, wall, nviol, known_hits, nworkers):
    ev = qscommon.qs_evidence(PROP, "exploration", stats, samples, plan, tier, seed, wall, nviol, known_hits,
                              nworkers, RULE, {"expected_probes": EXPECTED_PROBES})
    comp = ev["coverage"]["components"] = copy.deepcopy(ev["coverage"]["components"])
    comp["real"] += ["mwlib.core.nserve.dispatch_command (the bottle route function) and Application.dispatch (command look-up, make_collection_id / check_collection_id, queue selection, "
                     "error wrapping), do_render / do_render_status / _process_and_return_finished_state",
                     "mwlib.core.nserve.get_content_disposition(_values)", "qs.rpcclient.ServerProxy"]
    comp["stub"] += ["qs.rpcclient.RpcClient (InProcClient: same JSON framing, scheduler-released)",
                     "bottle (the request object is a stand-in with .params/.url; no WSGI)"]
    return ev


def replay(v, scratch):
    return qscommon.qs_replay(v, scratch, run_cls=C19Run)
