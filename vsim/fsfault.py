"""fsfault: file-system fault enumeration for C20 (DESIGN.md 5).

A producer runs in a forked child with every file-system *system call* that can change
state inside the watched directory routed through a counting tracer:

  open-for-write, write(2) (the raw layer under Python's real BufferedWriter /
  TextIOWrapper, whose buffer sizes the simulator chooses), close(2), ftruncate,
  os.open / os.write / os.close (mkstemp), rename, replace, unlink, mkdir, rmdir.

For a fault (kind, k) the tracer, immediately before system call k,
  crash      calls os._exit(137): no finally, no atexit, no flush - whatever Python still
             buffers in user space is really lost, whatever reached the kernel stays;
  enospc     raises OSError(ENOSPC) instead of executing the call;
  eio_short  (write calls) writes half of the bytes, then raises OSError(EIO);
  eio_after  (close calls) executes the call, then raises OSError(EIO).
The parent then looks at the published paths the way a reader would.
"""

import builtins
import errno
import gc
import io
import json
import mmap
import os
import signal
import struct
import sys
import tempfile
import traceback

REAL = {}
REAL_GETPID = os.getpid


class Fault:
    def __init__(self, kind="none", at=-1):
        self.kind = kind
        self.at = at

    def as_list(self):
        return [self.kind, self.at]


class Tracer:
    def __init__(self, watch, fault, bufsizes, name_seed=0, exdev=False, tmpdir=None):
        self.exdev = exdev
        self.tmpdir = tmpdir
        self.watch = os.path.abspath(watch)
        self.fault = fault
        self.bufsizes = list(bufsizes) or [8192]
        self.nopen = 0
        # the op counter, the fired flag and the op log are shared with every process the
        # producer forks (a writer running in a child, ...): positions are global
        self._shm = mmap.mmap(-1, 16)
        self._logfd = None
        self.own_pid = None
        self.tracked_fds = set()
        self.raw_fds = {}  # fileno -> relpath of traced files (for fd-level copies: sendfile)
        self.open_files = []
        self.disk_full = False
        self.name_seed = name_seed

    # ---- bookkeeping ----------------------------------------------------------
    def inside(self, path):
        if isinstance(path, int) or path is None:
            return False
        try:
            p = os.path.abspath(os.fspath(path))
        except TypeError:
            return False
        if isinstance(p, bytes):
            p = p.decode("utf-8", "surrogateescape")
        return p == self.watch or p.startswith(self.watch + os.sep)

    def rel(self, path):
        p = os.path.abspath(os.fspath(path))
        if isinstance(p, bytes):
            p = p.decode("utf-8", "surrogateescape")
        return os.path.relpath(p, self.watch)

    @property
    def n(self):
        return struct.unpack_from("Q", self._shm, 0)[0]

    @property
    def fired(self):
        return bool(struct.unpack_from("Q", self._shm, 8)[0])

    @fired.setter
    def fired(self, v):
        struct.pack_into("Q", self._shm, 8, 1 if v else 0)

    def open_log(self, path):
        self._logfd = REAL.get("os_open", os.open)(path, os.O_WRONLY | os.O_CREAT | os.O_APPEND, 0o600)
        self.own_pid = REAL_GETPID()

    def _log(self, rec):
        if self._logfd is not None:
            REAL.get("os_write", os.write)(self._logfd, (json.dumps(rec, default=repr) + "\n").encode())

    def read_log(self, path):
        trace, marks = [], []
        try:
            with REAL["open"](path, "rb") as fh:
                for line in fh:
                    rec = json.loads(line)
                    if rec[0] == "__mark__":
                        marks.append([rec[1], rec[2]])
                    else:
                        trace.append(rec)
        except OSError:
            pass
        return trace, marks

    def mark(self, label):
        self._log(["__mark__", self.n, label])

    def op(self, name, path, **info):
        """Called immediately before a state-changing system call.  Returns None, or
        'short' / 'after' for the caller to act on."""
        idx = self.n
        struct.pack_into("Q", self._shm, 0, idx + 1)
        rec = [name, path]
        if info:
            rec.append(info)
        self._log(rec)
        f = self.fault
        if self.disk_full and name in ("write", "os.write", "sendfile", "copy_file_range", "mkdir", "os.open", "open"):
            if self.disk_full is True or self.disk_full > 0:
                if self.disk_full is not True:
                    self.disk_full -= 1  # transient: somebody frees space after a moment
                raise OSError(errno.ENOSPC, "No space left on device (injected: disk filled up)", path)
        if f.at == idx and not self.fired:
            self.fired = True
            if f.kind == "crash":
                # SIGKILL of the process that is about to make the call (the producer itself,
                # or a child it forked to do the work): no handler, no finally, no flush
                try:
                    os.kill(REAL_GETPID(), signal.SIGKILL)
                finally:
                    os._exit(137)
            if f.kind == "sigterm":
                # the ordinary way to kill a process.  Without a handler this is the same as the crash; with
                # one (installed by the producer) the handler runs right here, in the middle of whatever
                # the producer was doing, and the stack is then unwound (finally blocks, `with` exits)
                os.kill(REAL_GETPID(), signal.SIGTERM)
                return None
            if f.kind == "sibling":
                # a second producer (another job working in the same directory) runs from start to
                # end right here, between two system calls of this one; its calls are traced as well
                cb = getattr(self, "sibling", None)
                if cb is not None:
                    cb()
                return None
            if f.kind == "enospc":
                raise OSError(errno.ENOSPC, "No space left on device (injected)", path)
            if f.kind == "eio_short":
                if name in ("write", "os.write", "sendfile", "copy_file_range"):
                    return "short"
                raise OSError(errno.EIO, "Input/output error (injected)", path)
            if f.kind == "eio_after":
                return "after"
            if f.kind == "disk_full_transient":
                # like disk_full, but space comes back after the next failing call
                self.disk_full = 1
                if name in ("write", "os.write"):
                    return "short_ok"
                raise OSError(errno.ENOSPC, "No space left on device (injected)", path)
            if f.kind == "disk_full":
                # what the kernel does when the disk fills up in the middle of a write: it
                # stores what fits and returns a short count WITHOUT an error; only later calls fail
                self.disk_full = True
                if name in ("write", "os.write"):
                    return "short_ok"
                raise OSError(errno.ENOSPC, "No space left on device (injected)", path)
        return None

    def next_bufsize(self):
        b = self.bufsizes[self.nopen % len(self.bufsizes)]
        self.nopen += 1
        return b


class TracedRaw(io.RawIOBase):
    """The raw layer under Python's real buffered/text file objects: every call here is a
    system call that reaches the kernel."""

    def __init__(self, fileio, tracer, relpath):
        io.RawIOBase.__init__(self)
        self._f = fileio
        self._t = tracer
        self._p = relpath
        self.name = fileio.name
        self.mode = fileio.mode
        try:
            tracer.raw_fds[fileio.fileno()] = relpath
        except (OSError, ValueError):
            pass

    def write(self, b):
        act = self._t.op("write", self._p, n=len(b))
        if act == "short":
            mv = memoryview(b)
            self._f.write(mv[: len(mv) // 2])
            raise OSError(errno.EIO, "Input/output error (injected, short write)", self._p)
        if act == "short_ok":
            mv = memoryview(b)
            return self._f.write(mv[: len(mv) // 2])
        return self._f.write(b)

    def readinto(self, b):
        return self._f.readinto(b)

    def seek(self, pos, whence=0):
        return self._f.seek(pos, whence)

    def tell(self):
        return self._f.tell()

    def truncate(self, size=None):
        self._t.op("truncate", self._p)
        return self._f.truncate(size)

    def fileno(self):
        return self._f.fileno()

    def readable(self):
        return self._f.readable()

    def writable(self):
        return self._f.writable()

    def seekable(self):
        return self._f.seekable()

    def isatty(self):
        return False

    def close(self):
        if self.closed:
            return
        act = None
        try:
            if not self._f.closed:
                self._t.raw_fds.pop(self._f.fileno(), None)
                act = self._t.op("close", self._p)
        finally:
            # close(2) releases the descriptor even when it reports an error
            try:
                self._f.close()
            finally:
                io.RawIOBase.close(self)
        if act == "after":
            raise OSError(errno.EIO, "Input/output error (injected, reported by close)", self._p)


def _rawmode(mode):
    m = "".join(c for c in mode if c in "rwxa+")
    return m or "r"


def _writes(mode):
    return any(c in mode for c in "wxa+")


def install(tracer):
    """Route the interpreter's file-system entry points through the tracer.  Only called
    in a forked child (or a scratch process); never undone."""
    t = tracer
    R = REAL
    if not R:
        R.update(open=builtins.open, io_open=io.open, os_open=os.open, os_close=os.close, os_write=os.write,
                 fdopen=os.fdopen, rename=os.rename, replace=os.replace, unlink=os.unlink, remove=os.remove,
                 mkdir=os.mkdir, rmdir=os.rmdir, truncate=os.truncate, scandir=os.scandir, listdir=os.listdir,
                 symlink=os.symlink, link=os.link)

    def wrap_stack(fileio, relpath, mode, buffering, encoding, errors, newline):
        raw = TracedRaw(fileio, t, relpath)
        binary = "b" in mode
        if binary and buffering == 0:
            return raw
        bs = t.next_bufsize()
        if buffering is not None and buffering > 1:
            bs = min(bs, buffering) if bs > 1 else bs
        bs = max(1, bs)
        if "+" in mode:
            buf = io.BufferedRandom(raw, bs)
        elif "r" in mode and "+" not in mode:
            buf = io.BufferedReader(raw, bs)
        else:
            buf = io.BufferedWriter(raw, bs)
        if binary:
            return buf
        txt = io.TextIOWrapper(buf, encoding=encoding, errors=errors, newline=newline,
                               line_buffering=(buffering == 1))
        try:
            txt._CHUNK_SIZE = max(1, bs)
        except Exception:  # noqa: BLE001
            pass
        txt.mode = mode
        return txt

    def traced_open(file, mode="r", buffering=-1, encoding=None, errors=None, newline=None, closefd=True, opener=None):
        if isinstance(file, int):
            if file in t.tracked_fds and _writes(mode):
                t.tracked_fds.discard(file)
                fio = io.FileIO(file, _rawmode(mode), closefd=closefd)
                return wrap_stack(fio, "<fd>", mode, buffering, encoding, errors, newline)
            return R["open"](file, mode, buffering, encoding, errors, newline, closefd, opener)
        if not _writes(mode) or not t.inside(file) or opener is not None:
            return R["open"](file, mode, buffering, encoding, errors, newline, closefd, opener)
        rel = t.rel(file)
        t.op("open", rel, mode=mode)
        fio = io.FileIO(file, _rawmode(mode))
        f = wrap_stack(fio, rel, mode, buffering, encoding, errors, newline)
        t.open_files.append(f)
        return f

    def traced_os_open(path, flags, mode=0o777, *, dir_fd=None):
        writes = flags & (os.O_WRONLY | os.O_RDWR | os.O_CREAT | os.O_TRUNC | os.O_APPEND)
        if dir_fd is None and writes and t.inside(path):
            t.op("os.open", t.rel(path), flags=flags & (os.O_CREAT | os.O_EXCL | os.O_TRUNC))
            fd = R["os_open"](path, flags, mode)
            t.tracked_fds.add(fd)
            return fd
        if dir_fd is not None:
            return R["os_open"](path, flags, mode, dir_fd=dir_fd)
        return R["os_open"](path, flags, mode)

    def traced_os_close(fd):
        if fd in t.tracked_fds:
            t.tracked_fds.discard(fd)
            act = t.op("os.close", "<fd>")
            R["os_close"](fd)
            if act == "after":
                raise OSError(errno.EIO, "Input/output error (injected, reported by close)")
            return None
        return R["os_close"](fd)

    def traced_os_write(fd, data):
        if fd in t.tracked_fds:
            act = t.op("os.write", "<fd>", n=len(data))
            if act == "short":
                R["os_write"](fd, bytes(data)[: len(data) // 2])
                raise OSError(errno.EIO, "Input/output error (injected, short write)")
            if act == "short_ok":
                return R["os_write"](fd, bytes(data)[: len(data) // 2])
        return R["os_write"](fd, data)

    def fd_copy(name):
        real = getattr(os, name)

        def f(*a, **kw):
            # os.sendfile(out_fd, in_fd, offset, count) / os.copy_file_range(src, dst, count, ...)
            out_fd = a[0] if name == "sendfile" else a[1]
            rel = t.raw_fds.get(out_fd)
            if rel is None and out_fd in t.tracked_fds:
                rel = "<fd>"
            if rel is not None:
                act = t.op(name, rel, n=a[3] if name == "sendfile" and len(a) > 3 else (a[2] if len(a) > 2 else None))
                if act == "short":
                    raise OSError(errno.EIO, "Input/output error (injected)")
            return real(*a, **kw)

        return f

    def traced_fdopen(fd, mode="r", buffering=-1, encoding=None, *args, **kwargs):
        return traced_open(fd, mode, buffering, encoding, *args, **kwargs)

    def two_path(name):
        real = R[name]

        def f(src, dst, *, src_dir_fd=None, dst_dir_fd=None):
            if src_dir_fd is None and dst_dir_fd is None and (t.inside(src) or t.inside(dst)):
                crossing = t.inside(src) != t.inside(dst)
                act = t.op(name, t.rel(dst) if t.inside(dst) else "<outside>", src=t.rel(src) if t.inside(src) else "<outside>")
                if crossing and t.exdev:
                    # configuration: the watched directory is its own file system (a cache
                    # volume), the rest (TMPDIR, ...) is another one
                    raise OSError(errno.EXDEV, "Invalid cross-device link (simulated: other file system)", os.fspath(dst))
                real(src, dst)
                if act == "after":
                    raise OSError(errno.EIO, "Input/output error (injected)")
                return None
            return real(src, dst, src_dir_fd=src_dir_fd, dst_dir_fd=dst_dir_fd)

        return f

    def one_path(name):
        real = R[name]

        def f(path, *a, dir_fd=None, **kw):
            if dir_fd is None and t.inside(path):
                t.op(name, t.rel(path))
                return real(path, *a, **kw)
            if dir_fd is not None:
                t.op(name, "<dir_fd>/" + os.fsdecode(path))
                return real(path, *a, dir_fd=dir_fd, **kw)
            return real(path, *a, **kw)

        return f

    class SortedScandir:
        def __init__(self, path):
            with R["scandir"](path) as it:
                self._entries = sorted(it, key=lambda e: e.name)
            self._i = 0

        def __iter__(self):
            return self

        def __next__(self):
            if self._i >= len(self._entries):
                raise StopIteration
            e = self._entries[self._i]
            self._i += 1
            return e

        def __enter__(self):
            return self

        def __exit__(self, *a):
            return False

        def close(self):
            pass

    def traced_scandir(path="."):
        return SortedScandir(path)

    def traced_listdir(path="."):
        return sorted(R["listdir"](path))

    builtins.open = traced_open
    io.open = traced_open
    os.open = traced_os_open
    os.close = traced_os_close
    os.write = traced_os_write
    os.fdopen = traced_fdopen
    os.rename = two_path("rename")
    os.replace = two_path("replace")
    os.unlink = one_path("unlink")
    os.remove = one_path("remove")
    os.mkdir = one_path("mkdir")
    os.rmdir = one_path("rmdir")
    os.truncate = one_path("truncate")
    if hasattr(os, "sendfile"):
        os.sendfile = fd_copy("sendfile")
    if hasattr(os, "copy_file_range"):
        os.copy_file_range = fd_copy("copy_file_range")
    os.scandir = traced_scandir
    os.listdir = traced_listdir

    # seeded temp-file names so that traces replay byte for byte
    import random as _random

    class _Names:
        def __init__(self, seed):
            self.rng = _random.Random(seed)

        def __iter__(self):
            return self

        def __next__(self):
            return "".join(self.rng.choice("abcdefghijklmnopqrstuvwxyz0123456789_") for _ in range(8))

    tempfile._name_sequence = _Names(t.name_seed)
    # the process id is one more source of nondeterminism (it ends up in scratch-file names)
    os.getpid = lambda: 4242
    # no producer waits on the real clock (retry back-offs): blocking sleeps return at once
    import time as _time
    from . import kernel as _kernel
    _kernel.SLEEP_IS_NOOP = True  # functions that captured time.sleep before this point (default arguments)
    _time.sleep = lambda seconds: None
    if t.tmpdir:
        # a private TMPDIR per run (outside the watched directory): leftovers of killed runs
        # must not change the names later runs get
        tempfile.tempdir = t.tmpdir
        os.environ["TMPDIR"] = os.environ["TMP"] = os.environ["TEMP"] = t.tmpdir


def simulate_interpreter_exit(tracer):
    """A process that ends normally (or with an uncaught exception) flushes and closes
    the file objects it still has open.  Do the same, through the tracer."""
    gc.collect()
    for f in list(tracer.open_files):
        try:
            if not f.closed:
                f.close()
        except Exception:  # noqa: BLE001
            pass
    for fd in list(tracer.tracked_fds):
        try:
            REAL["os_close"](fd)
        except OSError:
            pass


def run_child(scenario_fn, watch, fault, bufsizes, name_seed, report_fd, exdev=False, tmpdir=None):
    """Runs in the forked child.  Never returns."""
    status = 0
    info = {}
    tracer = Tracer(watch, fault, bufsizes, name_seed, exdev=exdev, tmpdir=tmpdir)
    logpath = os.path.join(os.path.dirname(os.path.abspath(watch)), "oplog.jsonl")
    try:
        try:
            os.unlink(logpath)
        except OSError:
            pass
        tracer.open_log(logpath)
        signal.signal(signal.SIGTERM, signal.SIG_DFL)  # whatever the harness process had installed
        # whatever randomness a producer puts into scratch names (uuid4, os.urandom, random, secrets) is a
        # function of the scenario: the same positions mean the same calls in every run
        import random as _random
        import uuid as _uuid
        _rnd = _random.Random(name_seed ^ 0x5eed)
        _random.seed(name_seed)
        os.urandom = lambda n: bytes(_rnd.getrandbits(8) for _ in range(n))
        _uuid.uuid4 = lambda: _uuid.UUID(int=_rnd.getrandbits(128), version=4)
        _uuid.uuid1 = lambda *a, **k: _uuid.UUID(int=_rnd.getrandbits(128), version=1)
        try:
            import secrets as _secrets
            _secrets.token_hex = lambda n=16: os.urandom(n).hex()
            _secrets.token_bytes = lambda n=32: os.urandom(n)
            _secrets.token_urlsafe = lambda n=32: os.urandom(n).hex()
        except Exception:  # noqa: BLE001
            pass
        try:
            # a producer that spins (a retry loop that never ends, with sleeps being no-ops here) must not
            # outlive the check as an orphan: the kernel ends this child after 10 minutes of CPU time
            import resource
            resource.setrlimit(resource.RLIMIT_CPU, (600, 620))
        except Exception:  # noqa: BLE001
            pass
        install(tracer)
        try:
            info = scenario_fn(tracer) or {}
        except SystemExit as e:
            info = {"raised": f"SystemExit({e.code})"}
        except BaseException as e:  # noqa: BLE001
            info = {"raised": f"{type(e).__name__}: {e}",
                    "tb": traceback.format_exc()[-1500:] if fault.kind == "none" else ""}
            e = None
        if tracer.own_pid != REAL_GETPID():
            os._exit(0)  # a process the producer forked came back here: it is not ours to report for
        simulate_interpreter_exit(tracer)
    except BaseException as e:  # noqa: BLE001
        info = {"harness_error": f"{type(e).__name__}: {e}\n{traceback.format_exc()[-2000:]}"}
        status = 3
    try:
        trace, marks = tracer.read_log(logpath)
        out = {"n": tracer.n, "trace": trace, "marks": marks, "info": info, "fired": tracer.fired}
        data = json.dumps(out, default=repr).encode()
        w = REAL.get("os_write", os.write)
        off = 0
        while off < len(data):
            off += w(report_fd, data[off:off + 65536])
    except BaseException:  # noqa: BLE001
        status = 4
    os._exit(status)


def fork_run(scenario_fn, watch, fault, bufsizes, name_seed=0, timeout=120, exdev=False, tmpdir=None):
    """Fork, run the scenario under `fault`, return (exit_status, report or None)."""
    r, w = os.pipe()
    sys.stdout.flush()
    sys.stderr.flush()
    pid = os.fork()
    if pid == 0:
        try:
            os.close(r)
            devnull = os.open(os.devnull, os.O_WRONLY)
            os.dup2(devnull, 1)
            os.dup2(devnull, 2)
            run_child(scenario_fn, watch, fault, bufsizes, name_seed, w, exdev=exdev, tmpdir=tmpdir)
        finally:
            os._exit(5)
    os.close(w)
    chunks = []
    while True:
        b = os.read(r, 1 << 16)
        if not b:
            break
        chunks.append(b)
    os.close(r)
    _, st = os.waitpid(pid, 0)
    code = os.waitstatus_to_exitcode(st)
    rep = None
    if chunks:
        try:
            rep = json.loads(b"".join(chunks))
        except ValueError:
            rep = None
    return code, rep
