"""C11 - fetching a collection yields a complete and faithful archive."""

import copy
import os
import shutil
import time

from .kernel import HarnessError, rng_for, stable_hash
from .runner import Stats, digest_dump, load_known, match_known

PROP = "C11"
PLAN = {"quick": {"budget_s": 45, "max_runs": 200000, "workers_multiple_of": 4},
        "thorough": {"budget_s": 900, "max_runs": 20000000, "workers_multiple_of": 4}}
NCLASSES = 4


def hashseed_of_worker(w):
    return 100 + (w % NCLASSES)


def draw(seed, i):
    from . import wiki
    rng = rng_for(seed, PROP, i)
    r = rng.random()
    spec = wiki.gen_spec(rng, size="small" if r < 0.78 else ("large" if r < 0.97 else "huge"))
    faultfree = rng.random() < 0.15
    cfg = {"latency": "constant" if faultfree else rng.choice(["constant", "uniform", "uniform", "heavy", "heavy"]),
           "p_stall": 0.0 if faultfree else rng.choice([0.0, 0.0, 0.02, 0.1]),
           "noimages": rng.random() < 0.2,
           "chunk_size": rng.choice([16384, 16384, 1000, 64]),
           "window": -1.0 if faultfree else rng.choice([-1.0, 0.0, 0.0, 0.02, 0.2]),
           "imagesize": rng.choice([800, 1200, 320]),
           "prior_fetch": rng.random() < 0.12,  # the process has fetched (this book) before
           "conf": {"api_request_limit": rng.choice([1, 2, 3, 5, 15, 50, rng.randint(1, 50)]),
                    "api_result_limit": rng.choice([1, 2, 3, 10, 50, 500, rng.randint(1, 50)]),
                    "rvlimit": rng.choice([1, 2, 3, 10, 50, 500]),
                    "max_connections": rng.choice([1, 2, 10, 20]),
                    "max_requests_per_second": rng.choice([0, 0, 0, 2, 20])}}
    if spec.get("long_titles"):
        cfg["conf"]["api_request_limit"] = rng.choice([15, 50, 15])  # the default and the maximum
    if len(spec["metabook"]) > 50:
        # a big book with generous limits (the defaults are 15 values per request, 500 results per answer)
        cfg["conf"]["api_result_limit"] = rng.choice([500, 500, 50])
        cfg["conf"]["api_request_limit"] = rng.choice([15, 50, 50])
    return rng, spec, cfg


def _run(spec, cfg, scratch, rng=None, latencies=None, tag="r"):
    from . import fetchworld
    fs = os.path.join(scratch, tag)
    shutil.rmtree(fs, ignore_errors=True)
    try:
        return fetchworld.run_fetch(spec, fs, rng=rng, latencies=latencies, config=cfg)
    finally:
        shutil.rmtree(fs, ignore_errors=True)


def minimise(spec, cfg, latencies, cls, scratch, budget=70):
    """Greedy reduction of the world, the configuration and the latency script while the
    same violation class persists."""
    used = [0]

    def fails(s, c, l):
        if used[0] >= budget:
            return False
        used[0] += 1
        r = _run(s, c, scratch, latencies=l, tag="min")
        return r["violation"] is not None and r["violation"]["class"] == cls

    cfg = dict(cfg, hang_after_s=8)  # a busy loop is re-detected quickly while minimising
    if not fails(spec, cfg, latencies):
        return None
    cur_s, cur_c, cur_l = copy.deepcopy(spec), copy.deepcopy(cfg), list(latencies)
    if fails(cur_s, cur_c, []):
        cur_l = []
    # drop metabook items
    i = 0
    while i < len(cur_s["metabook"]) and len(cur_s["metabook"]) > 1:
        s2 = copy.deepcopy(cur_s)
        del s2["metabook"][i]
        if fails(s2, cur_c, cur_l):
            cur_s = s2
        else:
            i += 1
    # drop images, then pages that the metabook does not name
    for name in sorted(cur_s["images"]):
        s2 = copy.deepcopy(cur_s)
        del s2["images"][name]
        if fails(s2, cur_c, cur_l):
            cur_s = s2
    named = {it["title"] for it in cur_s["metabook"]}
    for t in sorted(cur_s["pages"]):
        if t in named:
            continue
        s2 = copy.deepcopy(cur_s)
        del s2["pages"][t]
        if fails(s2, cur_c, cur_l):
            cur_s = s2
    # simplest configuration
    c2 = copy.deepcopy(cur_c)
    c2.update({"latency": "constant", "p_stall": 0.0, "chunk_size": 16384, "window": cur_c.get("window", -1.0)})
    c2["conf"] = {"api_request_limit": 15, "api_result_limit": 500, "rvlimit": 500, "max_connections": 10,
                  "max_requests_per_second": 0}
    if fails(cur_s, c2, cur_l):
        cur_c = c2
    for it in cur_s["metabook"]:
        if it.get("chapter"):
            s2 = copy.deepcopy(cur_s)
            for x in s2["metabook"]:
                x["chapter"] = None
            if fails(s2, cur_c, cur_l):
                cur_s = s2
            break
    res = _run(cur_s, cur_c, scratch, latencies=cur_l, tag="min")
    return cur_s, cur_c, res


def worker(seed, widx, nworkers, plan, scratch):
    import sys
    want = str(hashseed_of_worker(widx))
    if os.environ.get("PYTHONHASHSEED") != want:
        raise HarnessError(f"worker {widx} runs under PYTHONHASHSEED={os.environ.get('PYTHONHASHSEED')}, expected {want}")
    import warnings
    warnings.simplefilter("ignore")
    t_end = time.monotonic() + plan["budget_s"]
    per_class = max(1, nworkers // NCLASSES)
    klass, rank = widx % NCLASSES, widx // NCLASSES
    if rank >= per_class:
        return {"stats": {}, "samples": [], "known_hits": [], "violation": None}
    per_worker = (plan["max_runs"] + nworkers - 1) // nworkers
    known = load_known()
    st = {"runs": 0, "nontrivial": set(), "steps": 0, "sim_seconds": 0.0, "counters": {}, "hub_errors": {},
          "interleavings": set(), "determinism_rechecks": 0, "max_pending": 0, "max_steps": 0, "worlds": set(),
          "configs": {}}
    samples, known_hits, violation = [], [], None
    j = 0
    n = 0
    while n < per_worker and time.monotonic() < t_end and violation is None:
        i = klass + NCLASSES * (rank + per_class * j)
        j += 1
        rng, spec, cfg = draw(seed, i)
        res = _run(spec, cfg, scratch, rng=rng)
        n += 1
        digest_dump(i, res["digest"])
        st["runs"] += 1
        st["steps"] += res["steps"]
        st["sim_seconds"] += res["sim_seconds"]
        st["max_pending"] = max(st["max_pending"], res["max_pending"])
        st["max_steps"] = max(st["max_steps"], res["steps"])
        Stats.merge(st["counters"], res["counters"])
        for he in res["hub_errors"]:
            Stats.merge(st["hub_errors"], {he[0]: 1})
        Stats.merge(st["configs"], {"latency:" + cfg["latency"]: 1, "noimages" if cfg["noimages"] else "images": 1,
                                    "lang:" + spec["lang"]: 1,
                                    "rate-limited" if cfg["conf"]["max_requests_per_second"] else "unlimited": 1})
        st["interleavings"].add(res["interleaving"])
        st["worlds"].add(stable_hash(spec))
        if res["steps"] >= 10 and (cfg["latency"] != "constant" or res["counters"].get("continuation-forced")):
            st["nontrivial"].add(res["interleaving"])
        if len(samples) < 1 and len(spec["pages"]) <= 6:
            samples.append({"run_index": i, "pythonhashseed": hashseed_of_worker(widx), "config": cfg,
                            "metabook": spec["metabook"], "pages": sorted(spec["pages"]), "images": sorted(spec["images"]),
                            "steps": res["steps"], "first_latencies": res["latencies"][:12]})
        if n % 50 == 1:
            rng2, spec2, cfg2 = draw(seed, i)
            res2 = _run(spec2, cfg2, scratch, rng=rng2)
            res3 = _run(spec, cfg, scratch, latencies=res["latencies"])
            st["determinism_rechecks"] += 1
            if res2["digest"] != res["digest"] or res3["digest"] != res["digest"]:
                raise HarnessError(f"non-deterministic C11 run {i}: {res['digest']} / {res2['digest']} / replay {res3['digest']}")
        v = res["violation"]
        if v is not None:
            hang = "CPU time" in v["message"]
            m = minimise(spec, cfg, res["latencies"], v["class"], scratch, budget=12 if hang else 70)
            if m is None:
                raise HarnessError(f"C11 violation of run {i} does not replay: {v}")
            s2, c2, r2 = m
            rec = {"property": PROP, "seed": seed, "run_index": i, "pythonhashseed": hashseed_of_worker(widx),
                   "spec": s2, "config": c2, "latencies": r2["latencies"], "violation": r2["violation"],
                   "digest": r2["digest"], "original_violation": v}
            k = match_known(PROP, r2["violation"], known)
            if k is not None:
                known_hits.append({"id": k["id"], "what": k["what"], "run_index": i})
            else:
                violation = rec
    return {"stats": st, "samples": samples, "known_hits": known_hits, "violation": violation}


RULE = ("each evaluation is one complete make_nuwiki run in virtual time against a seeded synthetic wiki (1-14 articles with "
        "1-4 revisions, template trees to depth 3 incl. missing ones, redirect chains, cycles and dead ends, 0-6 images on the "
        "wiki itself or on a second 'commons' wiki, bots/anonymous contributors, en/de namespaces) and metabook (titles, pinned "
        "revisions, chapters, missing titles), with api_request_limit / api_result_limit / rvlimit in 1..50(0), with and without "
        "images, under constant / uniform / heavy-tailed response latencies with 0-10% stalled responses; one parked request, "
        "download chunk or sleep is released per step.  Oracle: T-term, T-text, T-img, T-auth, T-once against the closure "
        "computed independently from the wiki.  Non-trivial = >=10 scheduler steps and (non-constant latencies or a forced "
        "continuation); distinct = distinct release orders (hash of the sequence of released requests).")


def evidence(stats, samples, plan, tier, seed, wall, nviol, known_hits, nworkers):
    runs = stats.get("runs", 0)
    c = stats.get("counters", {})
    cov = {
        "evaluations": runs,
        "distinct_nontrivial": len(stats.get("nontrivial", ())),
        "rule": RULE,
        "samples": samples[:3],
        "exhaustive": False,
        "runs_per_hour": int(runs / wall * 3600) if wall > 0 else 0,
        "simulated_seconds_total": round(stats.get("sim_seconds", 0.0), 1),
        "scheduler_steps": stats.get("steps", 0),
        "max_steps_in_one_run": stats.get("max_steps", 0),
        "max_parked_at_once": stats.get("max_pending", 0),
        "distinct_interleavings": len(stats.get("interleavings", ())),
        "distinct_worlds": len(stats.get("worlds", ())),
        "fault_counts": {k: c.get(k, 0) for k in ("stalled-response", "continuation-forced", "http-404",
                                                    "multi-arrival-quantum", "arrivals-in-multi-quanta")},
        "request_counts": {k: v for k, v in sorted(c.items()) if k.startswith("req:") or k in ("http-requests", "downloads")},
        "probes": {k: v for k, v in sorted(c.items()) if k.startswith("oracle:")},
        "configs": stats.get("configs", {}),
        "determinism_rechecks": stats.get("determinism_rechecks", 0),
        "exceptions_in_fetcher_greenlets": stats.get("hub_errors", {}),
        "components": {
            "real": ["mwlib.apps.make_nuwiki.make_nuwiki / StartFetcher", "mwlib.network.sapi.MwApi (request building, semaphores, "
                     "continuation merging, retry loop, rate limiter)", "mwlib.network.fetch.Fetcher (all greenlet orchestration), FsOutput, "
                     "download_to_file", "mwlib.network.transport.download_with_retries", "mwlib.network.workflow", "sqlitedict (real, own thread, "
                     "synchronous from the hub's point of view)", "mwlib.core.nuwiki.NuWiki/Adapt (reading back)", "gevent hub, pools, semaphores"],
            "stub": ["HTTP transport (MwApi._send_http_request, HttpClientManager.get_client, fetch._get_download_client)",
                     "time/sleep/monotonic in sapi and fetch (virtual clock)", "random.uniform in sapi (retry jitter; unused)",
                     "the wiki itself (vsim/wiki.py: the API surface the fetcher uses, trivial template language)",
                     "process boundaries (every fetch starts from cleared module/class-level state of the SUT, except in the prior-fetch configuration, which keeps it)"],
        },
        "known_findings_hit": sorted({k["id"] for k in known_hits}),
        "workers": nworkers,
    }
    return {"property_id": PROP, "tier": tier, "seed": seed, "level": "exploration", "coverage": cov,
            "assumptions": ["the synthetic wiki's answers define 'what the wiki serves'; the oracle never compares with real MediaWiki behaviour",
                            "set/dict iteration order is pinned per run through PYTHONHASHSEED (recorded in the replay file)",
                            "transient HTTP faults are outside C11's quantifier and are not injected"],
            "wall_s": round(wall, 2), "violations": nviol}


def replay(v, scratch):
    import warnings
    warnings.simplefilter("ignore")
    return _run(v["spec"], v["config"], scratch, latencies=v["latencies"], tag="replay")
