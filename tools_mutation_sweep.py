#!/venv/bin/python
"""Systematic mutation sweep (a complement to the sub-agent seeding): small syntactic
mutations of the code the claimed properties anchor.  For every mutant that still compiles
and still passes the relevant existing tests, the relevant quick checks are run against a
scratch copy; the survivors (tests green, checks green) are listed for manual review -
each is either behaviourally equivalent / outside the properties, or a gap.

usage: tools_mutation_sweep.py <group> [max_mutants] [budget_s]      group in: qs nserve fetch files
Writes /verif/mutation_sweep_<group>.json (progressively)."""

import json
import os
import py_compile
import random
import re
import shutil
import subprocess
import sys
import time

sys.path.insert(0, os.path.dirname(os.path.abspath(__file__)))
from vsim import kernel, selftest  # noqa: E402

GROUPS = {
    "qs": {"files": ["qs/jobs.py", "qs/qserve.py", "qs/rpcserver.py", "qs/misc.py"],
           "tests": ["tests/qs", "--deselect", "tests/qs/test_proc.py::test_run_cmd_execfail"],
           "checks": ["C16", "C17", "C18"]},
    "nserve": {"files": ["mwlib/core/nserve.py"], "ranges": {"mwlib/core/nserve.py": (196, 425)},
               "tests": ["tests/mwlib/test_nserve.py", "tests/mwlib/test_serve.py"], "checks": ["C19"]},
    "fetch": {"files": ["mwlib/network/fetch.py", "mwlib/network/sapi.py", "mwlib/network/workflow.py",
                        "mwlib/core/nuwiki.py", "mwlib/core/authors.py"],
              "ranges": {"mwlib/network/fetch.py": (160, 1130), "mwlib/network/sapi.py": (94, 760),
                         "mwlib/core/nuwiki.py": (81, 400)},
              "tests": ["tests/mwlib/network", "tests/mwlib/test_nuwiki.py", "tests/mwlib/test_zipwiki.py", "tests/mwlib/core"],
              "checks": ["C11"]},
    "files": {"files": ["mwlib/utils/status.py", "mwlib/apps/buildzip.py", "mwlib/network/transport.py", "mwlib/apps/render.py"],
              "ranges": {"mwlib/apps/buildzip.py": (150, 410), "mwlib/apps/render.py": (55, 85), "mwlib/utils/status.py": (90, 130)},
              "tests": ["tests/mwlib/apps", "tests/mwlib/network", "tests/mwlib/test_render.py"], "checks": ["C20"]},
}
RENDER_EXTRA = (245, 280)

SWAPS = [(" < ", " <= "), (" <= ", " < "), (" > ", " >= "), (" >= ", " > "), (" == ", " != "), (" != ", " == "),
         (" and ", " or "), (" or ", " and "), (" is None", " is not None"), (" is not None", " is None"),
         ("True", "False"), ("False", "True"), (" not ", " "), (" in ", " not in "), (" + ", " - "), (" - ", " + "),
         ("min(", "max("), ("max(", "min(")]
SKIP_LINE = re.compile(r"^\s*(#|\"\"\"|'''|logger\.|log\.|import |from |def |class |@|print\(|raise |assert )")
DELETABLE = re.compile(r"^(\s*)(self\.[\w\.\[\]\"']+(\(|\s*=|\s*\+=)|[\w\.]+\(|continue$|break$|return\b|del |[\w_]+\s*(=|\+=)\s)")


def mutants_of(path, rel, lo_hi):
    lines = open(path).read().split("\n")
    lo, hi = lo_hi or (1, len(lines))
    out = []
    in_doc = False
    for i, line in enumerate(lines, 1):
        if line.strip().startswith(('"""', "'''")):
            if line.strip().count('"""') + line.strip().count("'''") == 1:
                in_doc = not in_doc
            continue
        if in_doc or not (lo <= i <= hi) or not line.strip() or SKIP_LINE.match(line):
            continue
        code = line.split("  #")[0]
        for a, b in SWAPS:
            if a in code:
                out.append((rel, i, f"{a.strip()}->{b.strip() or 'removed'}", line.replace(a, b, 1)))
        for m in re.finditer(r"(?<![\w.])(\d{1,2})(?![\w.])", code):
            n = int(m.group(1))
            out.append((rel, i, f"{n}->{n + 1}", line[:m.start(1)] + str(n + 1) + line[m.end(1):]))
        m = DELETABLE.match(line)
        if m and not line.rstrip().endswith((":", ",", "(", "[", "{", "\\")) and line.count("(") == line.count(")"):
            out.append((rel, i, "statement->pass", m.group(1) + "pass"))
    return out


def main():
    group = sys.argv[1]
    max_mut = int(sys.argv[2]) if len(sys.argv) > 2 else 150
    budget = float(sys.argv[3]) if len(sys.argv) > 3 else 12
    g = GROUPS[group]
    allm = []
    for rel in g["files"]:
        rng_ = g.get("ranges", {}).get(rel)
        allm += mutants_of(os.path.join(kernel.REPO, "src", rel), rel, rng_)
        if rel.endswith("apps/render.py"):
            allm += mutants_of(os.path.join(kernel.REPO, "src", rel), rel, RENDER_EXTRA)
    random.Random(12345).shuffle(allm)
    allm = allm[:max_mut]
    out_path = os.path.join(kernel.VERIF_ROOT, f"mutation_sweep_{group}.json")
    rows = []
    t0 = time.time()
    for n, (rel, lineno, kind, newline) in enumerate(allm):
        root = selftest.make_copy()
        row = {"file": rel, "line": lineno, "mutation": kind}
        try:
            p = os.path.join(root, "src", rel)
            lines = open(p).read().split("\n")
            row["old"] = lines[lineno - 1].strip()
            row["new"] = newline.strip()
            lines[lineno - 1] = newline
            open(p, "w").write("\n".join(lines))
            try:
                py_compile.compile(p, doraise=True, cfile=os.path.join(root, "x.pyc"))
            except py_compile.PyCompileError:
                row["verdict"] = "does-not-compile"
                continue
            env = dict(os.environ, PYTHONPATH=os.path.join(root, "src"))
            t = subprocess.run(["/venv/bin/python", "-m", "pytest", "-x", "-q", "-p", "no:cacheprovider", "--timeout=60"] + g["tests"],
                               cwd=kernel.REPO, env=env, stdout=subprocess.PIPE, stderr=subprocess.STDOUT, text=True, timeout=900)
            if t.returncode != 0:
                row["verdict"] = "killed-by-existing-tests"
                continue
            verdict = "SURVIVED"
            for prop in g["checks"]:
                rc, out, dt = selftest.run_check_against(root, prop, budget)
                if rc == 1:
                    lines_ = [l for l in out.splitlines() if l.startswith("  class=")]
                    verdict = f"killed-by-{prop}"
                    row["first"] = lines_[0].strip()[:140] if lines_ else ""
                    break
                if rc != 0:
                    verdict = f"harness-error-{prop}"
                    row["first"] = out.strip().splitlines()[-1][:200] if out.strip() else ""
                    break
            row["verdict"] = verdict
        except subprocess.TimeoutExpired:
            row["verdict"] = "timeout"
        finally:
            shutil.rmtree(root, ignore_errors=True)
            rows.append(row)
            print(f"[{n + 1}/{len(allm)} {time.time() - t0:.0f}s] {row.get('verdict'):<28} {rel}:{lineno} {kind}: {row.get('old', '')[:70]}", flush=True)
            summary = {}
            for r in rows:
                k = r["verdict"].split("-C")[0] if r["verdict"].startswith("killed-by-C") else r["verdict"]
                summary[k] = summary.get(k, 0) + 1
            kernel.write_json(out_path, {"group": group, "summary": summary, "rows": rows})


if __name__ == "__main__":
    main()
