#!/usr/bin/env python3
"""Prepare one false-alarm round: per group of properties a scratch worktree of /repo under
/tmp/benign<N>-<G>/wt and a prompt asking for changes that PRESERVE the properties while changing
structure or unspecified behaviour.  Only the property texts go to the sub-agent.

usage: tools_benign_round.py <N>
Afterwards: one sub-agent per group; check each delivered patch (tests pass, argument holds), store it
under /verif/benign/<id>/ (patch.diff, notes.md, meta.json with "checks"), run `./check selftest benign <id>`."""

import glob
import json
import os
import subprocess
import sys

N = sys.argv[1]
GROUPS = {
    "qs": {"props": ["C16", "C17", "C18", "C19"],
           "tests": "tests/qs tests/mwlib/test_nserve.py tests/mwlib/test_serve.py"},
    "fetch": {"props": ["C11"],
              "tests": "tests/mwlib/network tests/mwlib/test_nuwiki.py tests/mwlib/test_zipwiki.py tests/mwlib/core"},
    "files": {"props": ["C20"],
              "tests": "tests/mwlib/apps tests/mwlib/network tests/mwlib/test_render.py tests/mwlib/test_zipwiki.py"},
}

TMPL = '''You are helping to evaluate a verification tool for FALSE ALARMS. Work ONLY inside the scratch git worktree {wt} (a checkout of the open-source project pediapress/mwlib: a Python MediaWiki parser/renderer with a small job-queue server in src/qs). Do NOT read or touch /verif or /repo, and do not look for any verification machinery; your work must be independent.

Here are semantic properties that the code base satisfies:

{props}

Your task: produce FOUR different, realistic code changes to the project sources under {wt}/src, each of which KEEPS every one of these properties true - for every input, schedule, crash point and history the properties quantify over - while changing as much as possible of what the properties do NOT fix: internal structure (data structures, helper functions, class layout, names of private attributes, order of independent statements, how state is stored or pickled as long as a restart still restores it), and observable-but-unspecified behaviour (constants such as default timeouts / intervals / buffer and batch sizes, wording of log and progress messages, which of several equally allowed choices is taken, extra fields in answers, extra or fewer temporary files, different temporary-file names, different but equally valid API request batching, the order of independent requests, caching that does not change results, socket I/O done differently with the same bytes on the wire). ALREADY DONE in earlier rounds (do something else):
{done}

Be bold: a maintainer's real refactoring or tuning commit, 30-150 changed lines each, touching the code the properties are anchored in ({files}). Each change must be one you can ARGUE is property-preserving; do not introduce bugs. Avoid trivial whitespace/comment-only changes.

For each change i in (1, 2, 3, 4) deliver, in {out}/change<i>/ :
  - patch.diff : `git -C {wt} diff` for that change alone (apply one change at a time; run `git -C {wt} checkout -- .` between them so that each diff is relative to the pristine tree)
  - notes.md : 5-10 lines: what the change is, what observable behaviour (if any) it alters, and the argument why each property still holds.

How to run things: the interpreter is /venv/bin/python (Python 3.12, gevent, pytest installed; NO network). Existing tests: `cd {wt} && PYTHONPATH={wt}/src timeout 900 /venv/bin/python -m pytest -q -p no:cacheprovider --timeout=120 {tests}` -- they must still pass with each change applied (tests/qs/test_proc.py::test_run_cmd_execfail is flaky in this sandbox and tests/mwlib/test_odfwriter.py fails at collection even on the pristine tree; ignore those two). Also exercise each change with a small script of your own so that you know the changed code actually runs and works.

Do not commit anything. Leave the worktree pristine at the end (`git -C {wt} checkout -- .`). Work in small steps and keep your messages short (write files with tools; do not paste whole source files into your replies). In your final answer, summarise the four changes in a few lines each.'''


def main():
    props = {}
    for line in open("/verif/properties.jsonl"):
        p = json.loads(line)
        props[p["id"]] = p
    so = glob.glob("/repo/src/**/*.so", recursive=True)
    for g, spec in GROUPS.items():
        d = f"/tmp/benign{N}-{g}"
        subprocess.run(["rm", "-rf", d])
        os.makedirs(d)
        subprocess.run(["git", "-C", "/repo", "worktree", "add", "-q", "--detach", f"{d}/wt", "HEAD"], check=True)
        for f in so:
            subprocess.run(["cp", f, f"{d}/wt/" + os.path.relpath(f, "/repo")])
        blocks, files = [], []
        for pid in spec["props"]:
            p = props[pid]
            blocks.append(f"---\nTitle: {p['title']}\nStatement: {p['statement']}\nQuantifier: {p['quantifier']['text']}\n---")
            files += [f for f in p["anchors"]["files"] if f not in files]
        done = []
        for bid in sorted(os.listdir("/verif/benign")):
            try:
                m = json.load(open(f"/verif/benign/{bid}/meta.json"))
            except OSError:
                continue
            if set(m.get("checks", [])) & set(spec["props"]):
                done.append("- " + m.get("why_property_preserving", bid)[:200])
        open(f"{d}/prompt.txt", "w").write(TMPL.format(wt=f"{d}/wt", out=d, props="\n\n".join(blocks),
                                                        files=", ".join(files), tests=spec["tests"], done="\n".join(done)))
        print("prepared", d)


if __name__ == "__main__":
    main()
