#!/bin/sh
# Offline setup: nothing is installed; verify the interpreter and imports the checks need.
cd "$(dirname "$0")" || exit 2
mkdir -p evidence replays
/venv/bin/python - <<'PY' || exit 2
import gevent, sys
sys.path.insert(0, "/verif")
import qs.jobs, qs.qserve, qs.rpcserver, mwlib.core.nserve  # noqa
import vsim.kernel
print("setup ok: python", sys.version.split()[0], "gevent", gevent.__version__)
PY
